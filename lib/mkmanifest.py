#!/usr/bin/env python3
"""Regenerates MANIFEST.json from the table below (kept in one place so that it stays valid)."""
import json, os, sys
VERIF = os.path.dirname(os.path.dirname(os.path.abspath(__file__)))

# id -> (level, technique, level text, level note, design ref)
CHECKS = {}
def reg(pid, level, technique, text, note, ref):
    CHECKS[pid] = (level, technique, text, note, ref)

exec(open(os.path.join(VERIF, "lib", "manifest_table.py")).read())

props = [json.loads(l)["id"] for l in open(os.path.join(VERIF, "properties.jsonl"))]
checks = []
for pid in props:
    if pid not in CHECKS:
        continue
    level, technique, text, note, ref = CHECKS[pid]
    checks.append({
        "property_id": pid,
        "quick_cmd": "./check %s quick" % pid,
        "thorough_cmd": "./check %s thorough" % pid,
        "evidence_file": "/verif/evidence/%s.json" % pid,
        "replay_cmd_template": "./check %s --replay {path}" % pid,
        "engine": "tdverif",
        "level_claimed": {"category": level, "text": text, "design_ref": ref},
        "level_note": note,
        "technique": technique,
    })
na = [{"property_id": p, "reason": NOT_APPLICABLE.get(p, "check not built yet in this session; see DESIGN.md section 4 for the planned generator and oracle")} for p in props if p not in CHECKS]
m = {
    "version": 1,
    "setup_cmd": "./setup.sh",
    "hooks": {
        "guard": "toodee_verif",
        "enable": "none needed: every property is observable through the public API; checks build /repo as a plain cargo path dependency (no cfg flag is set)",
        "baseline_off_cmd": "cd /repo && cargo test --workspace --no-fail-fast --offline",
        "source_commits": [],
        "add_only": True,
    },
    "engines": [
        {"name": "tdverif", "path": "/verif/harness", "serves_properties": [c["property_id"] for c in checks],
         "kind_free_text": "Rust harness crate: proptest strategies + bounded enumerators generate serialisable cases; one pure executor per property runs each case against the real crate and an explicit oracle (reference model / ideal sequence / formula / round trip); driver (/verif/check, /verif/lib/driver.py) builds it from /repo's working tree in debug and release profiles, contains crashes via per-case journals, shrinks, writes evidence"},
    ],
    "checks": checks,
    "not_applicable": na,
    "notes": NOTES,
}
json.dump(m, open(os.path.join(VERIF, "MANIFEST.json"), "w"), indent=1)
print("MANIFEST.json: %d checks, %d not_applicable" % (len(checks), len(na)))
