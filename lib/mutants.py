#!/usr/bin/env python3
"""Applies each mutant of mutants/catalog.json to a scratch clone of /repo (never to /repo itself) and runs the checks
of a scratch clone of /verif against it.

  mutants.py <scratch-root> [--all-checks] [ids...]

Writes <scratch-root>/mutants.json: per mutant whether it still applies to the repaired tree, whether the unit
tests still pass with it, and which checks report a violation.
"""
import json
import os
import re
import subprocess
import sys
import time

ENV = dict(os.environ, CARGO_NET_OFFLINE="true", CARGO_TERM_COLOR="never")
PROPS = ["C%02d" % i for i in range(1, 21)]


def sh(cmd, cwd=None, timeout=3600):
    p = subprocess.run(cmd, cwd=cwd, shell=isinstance(cmd, str), stdout=subprocess.PIPE, stderr=subprocess.STDOUT, text=True, env=ENV, timeout=timeout)
    return p.returncode, p.stdout


def apply_mutant(repo, m):
    path = os.path.join(repo, m["file"])
    data = open(path, newline="").read()
    crlf = "\r\n" in data
    old, new = m["old"], m["new"]
    if crlf:
        old = old.replace("\r\n", "\n").replace("\n", "\r\n")
        new = new.replace("\r\n", "\n").replace("\n", "\r\n")
    n = data.count(old)
    if n != 1:
        return "pattern occurs %d times" % n
    open(path, "w", newline="").write(data.replace(old, new))
    return None


def main():
    scratch = sys.argv[1]
    all_checks = "--all-checks" in sys.argv
    only = set(a for a in sys.argv[2:] if not a.startswith("--"))
    verif = os.path.join(scratch, "verif")
    repo = os.path.join(scratch, "repo")
    if not os.path.exists(repo):
        os.makedirs(scratch, exist_ok=True)
        rc, out = sh(["git", "-C", "/repo", "worktree", "add", "--detach", repo, "HEAD"])
        assert rc == 0, out
    sh(["rsync", "-a", "--delete", "--exclude", "harness/target", "--exclude", "work", "--exclude", "replays", "--exclude", ".git", "/verif/", verif + "/"])
    ct = os.path.join(verif, "harness", "Cargo.toml")
    txt = open(ct).read().replace('path = "/repo"', 'path = "%s"' % repo)
    open(ct, "w").write(txt)
    cat = json.load(open("/verif/mutants/catalog.json"))
    outp = os.path.join(scratch, "mutants.json")
    res = json.load(open(outp)) if os.path.exists(outp) else {}
    for m in cat["mutants"]:
        mid = m["id"]
        if only and mid not in only:
            continue
        sh("git checkout -- .", cwd=repo)
        err = apply_mutant(repo, m)
        row = {"primary": m["primary_property"], "file": m["file"]}
        if err:
            row["applies"] = False
            row["note"] = err
            res[mid] = row
            print(mid, "does not apply:", err, flush=True)
            json.dump(res, open(outp, "w"), indent=1)
            continue
        row["applies"] = True
        rc, out = sh("cargo test --offline 2>&1", cwd=repo)
        r = re.findall(r"test result: (\w+)\. (\d+) passed; (\d+) failed", out)
        row["unit_tests_pass"] = rc == 0 and len(r) >= 2 and all(x[0] == "ok" for x in r)
        checks = PROPS if all_checks else sorted(set([m["primary_property"]] + m.get("also", [])))
        t0 = time.time()
        row["checks"] = {}
        for chk in checks:
            rc, out = sh([os.path.join(verif, "check"), chk, "quick"], cwd=verif)
            sigs = [l.strip()[:200] for l in out.splitlines() if re.match(r"^\s+C\d\d \[", l)]
            row["checks"][chk] = {"exit": rc, "first": sigs[:1]}
        caught = [c for c, v in row["checks"].items() if v["exit"] == 1]
        row["caught_by"] = caught
        res[mid] = row
        print(mid, "primary", m["primary_property"], "tests_pass", row["unit_tests_pass"], "caught by", caught, "(%.0fs)" % (time.time() - t0), flush=True)
        json.dump(res, open(outp, "w"), indent=1)
    sh("git checkout -- .", cwd=repo)


if __name__ == "__main__":
    main()
