#!/bin/sh
# Re-runs every quick check on the *unchanged* /repo and validates MANIFEST + evidence against the schemas.
# Run this before committing evidence (never commit evidence produced while /repo carried an experimental patch).
set -e
cd "$(dirname "$0")/.."
if [ -n "$(git -C /repo status --short)" ]; then echo "/repo has uncommitted changes: refusing"; exit 2; fi
rc=0
for p in C01 C02 C03 C04 C05 C06 C07 C08 C09 C10 C11 C12 C13 C14 C15 C16 C17 C18 C19 C20; do
  ./check $p quick > work/refresh_$p.out 2> work/refresh_$p.err || { echo "$p: exit $?"; rc=1; }
  grep -h "VIOLATION\|KNOWN-FINDING" work/refresh_$p.out || true
  grep -h "^\[" work/refresh_$p.err | cut -c1-160
done
python3-vt - <<'PY'
import json, jsonschema, glob
jsonschema.validate(json.load(open('MANIFEST.json')), json.load(open('/root/.vp/MANIFEST.schema.json')))
sch = json.load(open('/root/.vp/EVIDENCE.schema.json'))
n = 0
for f in sorted(glob.glob('evidence/*.json')):
    e = json.load(open(f))
    jsonschema.validate(e, sch)
    assert e['violations'] == 0, f
    assert not e['coverage']['essential_classes_missing'], (f, e['coverage']['essential_classes_missing'])
    n += 1
print('manifest + %d evidence files valid, no violations, no essential class missing' % n)
PY
exit $rc
