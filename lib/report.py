#!/usr/bin/env python3
"""Fills the result tables of DESIGN.md section 10 from mutants/results.json and seeded/*/meta.json."""
import json
import os
import re

VERIF = os.path.dirname(os.path.dirname(os.path.abspath(__file__)))


def mutant_table():
    p = os.path.join(VERIF, "mutants", "results.json")
    if not os.path.exists(p):
        return "(not run yet)"
    res = json.load(open(p))
    cat = {m["id"]: m for m in json.load(open(os.path.join(VERIF, "mutants", "catalog.json")))["mutants"]}
    rows = ["| mutant | primary | unit tests pass | caught by (quick tier; final run with the finished harness: the primary property's check and the neighbours listed in the catalog) | note |", "|---|---|---|---|---|"]
    n = caught_primary = caught_any = 0
    for mid, m in cat.items():
        r = res.get(mid)
        if not r:
            rows.append("| %s | %s | ? | (not run) | |" % (mid, m["primary_property"]))
            continue
        if not r.get("applies"):
            rows.append("| %s | %s | - | - | pattern no longer matches: %s |" % (mid, m["primary_property"], r.get("note", "")))
            continue
        n += 1
        cb = r.get("caught_by", [])
        if m["primary_property"] in cb:
            caught_primary += 1
        if cb:
            caught_any += 1
        note = NOTES.get(mid, "")
        rows.append("| %s | %s | %s | %s | %s |" % (mid, m["primary_property"], "yes" if r.get("unit_tests_pass") else "NO", ", ".join(cb) if cb else "**none**", note))
    rows.append("")
    rows.append("%d mutants applied; %d caught by their primary property's quick check, %d by at least one quick check." % (n, caught_primary, caught_any))
    return "\n".join(rows)


NOTES = {
    "m10": "value-invisible (one element copied past the end of the buffer). Missed by the value oracles of the first quick tier; the quick tier of the raw-pointer properties now includes the ASan worker and `./check C07 quick` / `./check C05 quick` report it (abort attributed to the journalled case). Also verified on the thorough tier: `./check C07 thorough` reports it on both extra substrates (ASan abort attributed to the journalled case; Miri: memory access beyond the end of the allocation)",
    "m12": "turned out to be an *equivalent* mutant: for the first row the prefix copy has read_p == write_p, so its length is irrelevant",
    "m09": "no longer survives the unit tests on the repaired tree",
}


def seed_table():
    d = os.path.join(VERIF, "seeded")
    rows = ["| id | what it needs to manifest (agent's words, abridged) | quick checks that reported it at the first run | after strengthening / thorough tier |", "|---|---|---|---|"]
    n = first = 0
    for sid in sorted(os.listdir(d)):
        mp = os.path.join(d, sid, "meta.json")
        if not os.path.exists(mp):
            continue
        m = json.load(open(mp))
        n += 1
        cb = m.get("caught_by_at_first_run", [])
        prim = m["property"] in cb
        if prim:
            first += 1
        needs = re.sub(r"\s+", " ", m.get("needs", ""))[:170].replace("|", "/")
        after = ""
        if "after_strengthening" in m:
            after = "%s (%s)" % (", ".join(m["after_strengthening"]["caught_by"]), m["after_strengthening"]["what_was_strengthened"][:150].replace("|", "/"))
        th = m.get("thorough_primary")
        if th and not after:
            after = "thorough tier of %s (ASan + Miri batch): %s" % (m["property"], "reported" if th.get("exit") == 1 else "NOT reported")
            if m.get("note"):
                after += " — " + m["note"][:160]
        rows.append("| %s | %s | %s%s | %s |" % (sid, needs, ", ".join(cb) if cb else "**none (quick tier)**", "" if prim or not cb else " (not by %s itself)" % m["property"], after))
    rows.append("")
    rows.append("%d confirmed changes; %d were caught by their own property's quick check at the first run." % (n, first))
    return "\n".join(rows)


def main():
    p = os.path.join(VERIF, "DESIGN.md")
    s = open(p).read()
    for name, fn in (("MUTANT_TABLE", mutant_table), ("SEED_TABLE", seed_table)):
        begin, end = "<!-- %s_BEGIN -->" % name, "<!-- %s_END -->" % name
        block = begin + "\n" + fn() + "\n" + end
        if name + "_PLACEHOLDER" in s:
            s = s.replace(name + "_PLACEHOLDER", block)
        elif begin in s:
            s = s[:s.index(begin)] + block + s[s.index(end) + len(end):]
    open(p, "w").write(s)


if __name__ == "__main__":
    main()
