#!/bin/sh
# Runs every quick check on the unchanged tree with several seeds; prints anything that is not silent.
cd "$(dirname "$0")/.."
if [ -n "$(git -C /repo status --short)" ]; then echo "/repo has uncommitted changes: refusing"; exit 2; fi
mkdir -p work
bad=0
for seed in "$@"; do
  for p in C01 C02 C03 C04 C05 C06 C07 C08 C09 C10 C11 C12 C13 C14 C15 C16 C17 C18 C19 C20; do
    VERIF_SEED=$seed ./check $p quick > work/silence.out 2> work/silence.err; rc=$?
    if [ $rc -ne 0 ] || grep -q "VIOLATION\|KNOWN-FINDING" work/silence.out; then
      echo "seed $seed $p: exit $rc"; cat work/silence.out; grep -v "^\[" work/silence.err | head -5; bad=1
      mkdir -p work/silence-keep; cp replays/$p-* work/silence-keep/ 2>/dev/null
    fi
  done
  echo "seed $seed done"
done
exit $bad
