"""Driver: builds the harness from /repo's working tree, spawns one worker process per
substrate, contains crashes (journalled case -> replay in a fresh process -> minimise),
aggregates the evidence file and prints VIOLATION / KNOWN-FINDING lines."""
import copy
import hashlib
import json
import os
import shutil
import signal
import struct
import subprocess
import sys
import time

HARNESS = None
VERIF = None
NCPU = os.cpu_count() or 4

# property id -> metadata that is not known to the Rust side
PROPS = {
    "C01": {"level": "exploration"},
    "C02": {"level": "exploration"},
    "C03": {"level": "exploration"},
    "C04": {"level": "exploration"},
    "C05": {"level": "exploration"},
    "C06": {"level": "exploration"},
    "C07": {"level": "exploration"},
    "C08": {"level": "exploration"},
    "C09": {"level": "exploration"},
    "C10": {"level": "exploration"},
    "C11": {"level": "fault_enumeration"},
    "C12": {"level": "fault_enumeration"},
    "C13": {"level": "exploration"},
    "C14": {"level": "exploration"},
    "C15": {"level": "exploration"},
    "C16": {"level": "exploration"},
    "C17": {"level": "exploration"},
    "C18": {"level": "exploration"},
    "C19": {"level": "exploration"},
    "C20": {"level": "exploration"},
}

ASSUMPTIONS = [
    "bounded search: shapes, history/script lengths and case counts are those stated in coverage.bound / coverage.rule; nothing is claimed beyond them",
    "the oracle (rows-of-cells model / ideal sequence / formula / round trip) is hand-written from the property text and the crate documentation",
    "expected panics are caught with catch_unwind; a process-level abort (std ub_checks, sanitizer, SIGSEGV) while executing a journalled case is attributed to that case after it reproduces in a fresh process",
    "substrates: dbg = debug assertions + overflow checks + std UB checks; rel = -O without them; thorough adds asan / miri / libFuzzer where built",
]


def env_offline():
    e = dict(os.environ)
    e["CARGO_NET_OFFLINE"] = "true"
    e.setdefault("CARGO_TERM_COLOR", "never")
    return e


def log(*a):
    print(*a, file=sys.stderr, flush=True)


# ------------------------------------------------------------------------------------------
# building

def target_dir(sub):
    return os.path.join(HARNESS, "target", sub)


BIN_OVERRIDE = {}
ENV_OVERRIDE = {}


def sub_env(sub):
    e = dict(os.environ)
    if sub == "asan":
        e.update(ASAN_ENV)
    e.update(ENV_OVERRIDE.get(sub, {}))
    return e


# properties whose *quick* tier also runs the AddressSanitizer worker (the raw-pointer code paths:
# memory errors that no value oracle can see)
QUICK_ASAN = {"C01", "C03", "C05", "C06", "C07", "C11", "C12"}
ASAN_ENV = {"ASAN_OPTIONS": "detect_leaks=0:abort_on_error=1:symbolize=0", "TDV_SUBSTRATE": "asan"}


def bin_path(sub):
    if sub in BIN_OVERRIDE:
        return BIN_OVERRIDE[sub]
    if sub == "asan":
        return os.path.join(target_dir("asan"), "x86_64-unknown-linux-gnu", "release", "tdcheck")
    prof = "debug" if sub == "dbg" else "release"
    return os.path.join(target_dir(sub), prof, "tdcheck")


def build(subs):
    """Build the worker binary for the given native substrates (in parallel). Returns None on
    success or an error string."""
    lock = os.path.join(HARNESS, "Cargo.lock")
    if not os.path.exists(lock):
        shutil.copy("/repo/Cargo.lock", lock)
    procs = []
    for sub in subs:
        env = env_offline()
        if sub == "asan":
            # AddressSanitizer build of the same worker (nightly; debug assertions and overflow checks on)
            env["RUSTFLAGS"] = "-Zsanitizer=address -Cdebug-assertions=on -Coverflow-checks=on"
            cmd = ["cargo", "+nightly", "build", "--release", "--bin", "tdcheck", "--target", "x86_64-unknown-linux-gnu", "--target-dir", target_dir("asan")]
        else:
            cmd = ["cargo", "build", "--bin", "tdcheck", "--target-dir", target_dir(sub)]
            if sub == "rel":
                cmd.append("--release")
        procs.append((sub, subprocess.Popen(cmd, cwd=HARNESS, env=env, stdout=subprocess.PIPE, stderr=subprocess.STDOUT, text=True)))
    err = None
    for sub, p in procs:
        out, _ = p.communicate()
        if p.returncode != 0:
            err = "build of substrate %s failed:\n%s" % (sub, "\n".join(out.splitlines()[-40:]))
    return err


# ------------------------------------------------------------------------------------------
# crash containment

def read_journal(path):
    try:
        b = open(path, "rb").read()
        if len(b) < 8:
            return None
        n = struct.unpack("<Q", b[:8])[0]
        if n == 0 or len(b) < 8 + n:
            return None
        return json.loads(b[8:8 + n].decode())
    except Exception:
        return None


def replay_case(sub, pid, case, timeout=120, tolerate_known=False):
    """Returns ('pass'|'fail'|'crash'|'timeout', detail)."""
    wd = os.path.join(VERIF, "work", pid, "replay-" + sub)
    os.makedirs(wd, exist_ok=True)
    f = os.path.join(wd, "case-%d.json" % os.getpid())
    with open(f, "w") as fh:
        json.dump({"case": case}, fh)
    cmd = [bin_path(sub), "replay", pid, "--file", f, "--known", os.path.join(VERIF, "known_findings.txt")]
    if tolerate_known:
        cmd.append("--tolerate-known")
    try:
        p = subprocess.run(cmd, stdout=subprocess.PIPE, stderr=subprocess.PIPE, text=True, timeout=timeout, env=sub_env(sub))
    except subprocess.TimeoutExpired:
        return "timeout", ""
    finally:
        try:
            os.unlink(f)
        except OSError:
            pass
    if p.returncode < 0 or p.returncode >= 128:
        tail = (p.stderr or "").strip().splitlines()[-3:]
        return "crash", "signal %d: %s" % (-p.returncode if p.returncode < 0 else p.returncode - 128, " | ".join(tail))
    if p.returncode == 1:
        line = [l for l in p.stdout.splitlines() if l.startswith("REPLAY-FAIL")]
        return "fail", (line[0] if line else p.stdout.strip())
    if p.returncode == 0:
        return "pass", p.stdout.strip()
    return "crash", "exit %d: %s" % (p.returncode, (p.stderr or "").strip()[-300:])


def list_paths(v, prefix=()):
    """Paths of all lists inside a JSON value."""
    out = []
    if isinstance(v, list):
        out.append(prefix)
        for i, x in enumerate(v):
            out.extend(list_paths(x, prefix + (i,)))
    elif isinstance(v, dict):
        for k, x in v.items():
            out.extend(list_paths(x, prefix + (k,)))
    return out


def get_path(v, path):
    for p in path:
        v = v[p]
    return v


def minimise_crash(sub, pid, case, budget=150):
    """Greedy out-of-process delta debugging: drop list elements while the case still crashes."""
    cur = case
    changed = True
    spent = 0
    while changed and spent < budget:
        changed = False
        for path in list_paths(cur):
            try:
                lst = get_path(cur, path)
            except (KeyError, IndexError, TypeError):
                continue
            if not isinstance(lst, list) or len(lst) == 0:
                continue
            # only lists of operations/steps: removing an element must keep the type valid
            i = len(lst) - 1
            while i >= 0 and spent < budget:
                cand = copy.deepcopy(cur)
                l2 = get_path(cand, path)
                if not isinstance(l2, list) or i >= len(l2):
                    break
                del l2[i]
                spent += 1
                st, _ = replay_case(sub, pid, cand, timeout=60)
                if st == "crash":
                    cur = cand
                    changed = True
                i -= 1
    return cur


def save_replay(pid, sub, seed, case, sig, verdict, origin):
    d = os.path.join(VERIF, "replays")
    os.makedirs(d, exist_ok=True)
    h = hashlib.sha1((sig + json.dumps(case, sort_keys=True)).encode()).hexdigest()[:10]
    path = os.path.join(d, "%s-%s-%s.json" % (pid, sub, h))
    with open(path, "w") as fh:
        json.dump({"property": pid, "substrate": sub, "seed": seed, "origin": origin, "sig": sig, "verdict": verdict, "case": case}, fh, indent=1)
    return path


# ------------------------------------------------------------------------------------------
# known findings

def load_known(pid):
    out = []
    p = os.path.join(VERIF, "known_findings.txt")
    if os.path.exists(p):
        for line in open(p):
            line = line.strip()
            if line.startswith("known:"):
                toks = line[len("known:"):].split()
                prop = sig = None
                text = []
                for t in toks:
                    if t.startswith("property="):
                        prop = t[9:]
                    elif t.startswith("sig="):
                        sig = t[4:]
                    else:
                        text.append(t)
                if prop == pid and sig:
                    out.append((sig, " ".join(text)))
    return out


# ------------------------------------------------------------------------------------------
# one native substrate

def run_native(sub, pid, tier, seed, threads, timeout, extra=None):
    """Spawn the worker; returns a dict(status=ok|crash|timeout|error, stats=..., violations=[...])."""
    wd = os.path.join(VERIF, "work", pid, sub)
    shutil.rmtree(wd, ignore_errors=True)
    os.makedirs(wd, exist_ok=True)
    cmd = [bin_path(sub), "worker", pid, "--tier", tier, "--seed", str(seed), "--threads", str(threads), "--out", wd,
           "--known", os.path.join(VERIF, "known_findings.txt"), "--regress", os.path.join(VERIF, "regressions")]
    if extra:
        cmd += extra
    t0 = time.time()
    p = subprocess.Popen(cmd, stdout=subprocess.PIPE, stderr=subprocess.PIPE, text=True, env=sub_env(sub))
    return {"sub": sub, "proc": p, "wd": wd, "t0": t0, "timeout": timeout, "pid": pid, "seed": seed}


def live_failures(wd, pid, sub, seed):
    """Failures a worker recorded before it hung or died (written at once by the worker)."""
    out = []
    for name in sorted(os.listdir(wd)):
        if name.startswith("live-fail-") and name.endswith(".json"):
            try:
                f = json.load(open(os.path.join(wd, name)))
            except Exception:
                continue
            path = save_replay(pid, sub, seed, f["case"], f["sig"], f["verdict"], f.get("origin", ""))
            out.append({"sig": f["sig"], "verdict": f["verdict"], "replay": path})
    return out


def partial_stats(wd):
    """Coverage a worker had reported (every 20 000 cases per thread) before it hung or died."""
    tot = {"evaluations": 0, "distinct_nontrivial": 0, "regressions_replayed": 0, "enumerated": 0, "random": 0, "samples": [], "classes": {}, "rule": "", "bound": "",
           "exhaustive": False, "known_hits": {}, "essential_classes_missing": [], "partial": True, "wall_s": 0.0}
    found = False
    for name in sorted(os.listdir(wd)):
        if name.startswith("progress.") and name.endswith(".json"):
            try:
                p = json.load(open(os.path.join(wd, name)))
            except Exception:
                continue
            found = True
            for k in ("evaluations", "distinct_nontrivial", "regressions_replayed", "enumerated", "random"):
                tot[k] += p.get(k, 0)
            if not tot["samples"]:
                tot["samples"] = p.get("samples", [])
    return tot if found else None


def finish_native(h):
    p, wd, sub, pid, seed = h["proc"], h["wd"], h["sub"], h["pid"], h["seed"]
    try:
        out, err = p.communicate(timeout=max(1, h["timeout"] - (time.time() - h["t0"])))
    except subprocess.TimeoutExpired:
        p.kill()
        p.communicate()
        res = {"sub": sub, "status": "timeout", "stats": partial_stats(wd), "violations": [], "note": "watchdog after %ds" % h["timeout"]}
        res["violations"] = live_failures(wd, pid, sub, seed)
        return res
    wall = time.time() - h["t0"]
    stats_path = os.path.join(wd, "stats.json")
    res = {"sub": sub, "status": "ok", "stats": None, "violations": [], "wall_s": wall, "note": ""}
    if p.returncode in (0, 1) and os.path.exists(stats_path):
        stats = json.load(open(stats_path))
        res["stats"] = stats
        for f in stats.get("failures", []):
            path = save_replay(pid, sub, seed, f["case"], f["sig"], f["verdict"], f.get("origin", ""))
            res["violations"].append({"sig": f["sig"], "verdict": f["verdict"], "replay": path})
        return res
    # the worker died: find the journalled case that reproduces it
    sig_desc = "exit %s" % p.returncode
    tail = " | ".join((err or "").strip().splitlines()[-4:])
    res["status"] = "crash"
    res["note"] = "worker died (%s): %s" % (sig_desc, tail[-400:])
    culprits = []
    for name in sorted(os.listdir(wd)):
        if not name.startswith("journal."):
            continue
        case = read_journal(os.path.join(wd, name))
        if case is None:
            continue
        st, detail = replay_case(sub, pid, case)
        if st == "crash":
            small = minimise_crash(sub, pid, case)
            culprits.append((small, "process-abort", "the process was killed while executing this case (%s)" % detail))
        elif st == "fail":
            culprits.append((case, "journalled-failure", detail))
    seen = set()
    for case, sig, verdict in culprits:
        key = json.dumps(case, sort_keys=True)
        if key in seen:
            continue
        seen.add(key)
        path = save_replay(pid, sub, seed, case, sig, verdict, "crash-journal")
        res["violations"].append({"sig": sig, "verdict": verdict, "replay": path})
    res["violations"] += live_failures(wd, pid, sub, seed)
    res["stats"] = partial_stats(wd)
    if not res["violations"]:
        res["status"] = "error"
        res["note"] += " ; no journalled case reproduces the crash"
    return res


# ------------------------------------------------------------------------------------------
# evidence

def write_evidence(pid, tier, seed, level, results, wall, nviol, extra_cov=None, known_lines=None):
    evals = 0
    dn = 0
    classes = {}
    samples = []
    per = {}
    rule = ""
    exhaustive = False
    bound = ""
    missing = set()
    for r in results:
        st = r.get("stats")
        per[r["sub"]] = {"status": r["status"], "wall_s": round(r.get("wall_s", 0.0), 2), "note": r.get("note", "")}
        if not st:
            continue
        evals += st["evaluations"]
        dn = max(dn, st["distinct_nontrivial"])
        rule = st.get("rule") or rule
        bound = st.get("bound", bound) or bound
        exhaustive = exhaustive or bool(st.get("exhaustive"))
        for k, v in st.get("classes", {}).items():
            classes[k] = classes.get(k, 0) + v
        if not samples:
            samples = st.get("samples", [])
        per[r["sub"]].update({k: st[k] for k in ("evaluations", "regressions_replayed", "enumerated", "random", "distinct_nontrivial", "known_hits", "threads") if k in st})
        for m in st.get("essential_classes_missing", []):
            missing.add(m)
    cov = {
        "evaluations": evals,
        "distinct_nontrivial": dn,
        "rule": rule + " | distinct_nontrivial is the largest per-substrate count of distinct non-trivial cases (all substrates explore the same seeded cases, so the union is at least this).",
        "samples": samples,
        "exhaustive": exhaustive,
        "bound": bound,
        "classes": classes,
        "per_substrate": per,
        "known_findings_hit": known_lines or [],
        "essential_classes_missing": sorted(missing),
    }
    if extra_cov:
        cov.update(extra_cov)
    ev = {
        "property_id": pid, "tier": tier, "seed": seed, "level": level,
        "coverage": cov, "assumptions": ASSUMPTIONS, "wall_s": round(wall, 2), "violations": nviol,
    }
    d = os.path.join(VERIF, "evidence")
    os.makedirs(d, exist_ok=True)
    tmp = os.path.join(d, pid + ".json.tmp")
    with open(tmp, "w") as fh:
        json.dump(ev, fh, indent=1)
    os.replace(tmp, os.path.join(d, pid + ".json"))


# ------------------------------------------------------------------------------------------

def cmd_replay(pid, path):
    err = build(["dbg", "rel"])
    if err:
        log(err)
        return 2
    doc = json.load(open(path))
    case = doc["case"] if isinstance(doc, dict) and "case" in doc else doc
    bad = False
    for sub in ("dbg", "rel"):
        st, detail = replay_case(sub, pid, case)
        print("replay %s on %s: %s %s" % (os.path.basename(path), sub, st, detail))
        if st in ("fail", "crash"):
            bad = True
    if bad:
        print("VIOLATION property=%s replay=%s" % (pid, os.path.abspath(path)))
        return 1
    return 0


def main(argv, verif):
    global VERIF, HARNESS
    VERIF = verif
    HARNESS = os.path.join(verif, "harness")
    if argv and argv[0] == "--build":
        err = build(["dbg", "rel", "asan"])
        if err:
            log(err)
            return 2
        return 0
    if len(argv) < 2:
        log(__doc__)
        return 2
    pid = argv[0]
    if pid not in PROPS:
        log("unknown property", pid)
        return 2
    if argv[1] == "--replay":
        return cmd_replay(pid, argv[2])
    tier = argv[1]
    if tier not in ("quick", "thorough"):
        tier = os.environ.get("VERIF_TIER", "quick")
    seed = int(os.environ.get("VERIF_SEED", "0") or 0)
    if "--seed" in argv:
        seed = int(argv[argv.index("--seed") + 1])
    t0 = time.time()
    quick_asan = tier == "quick" and pid in QUICK_ASAN
    err = build(["dbg", "rel"] + (["asan"] if quick_asan else []))
    if err:
        log(err)
        log("INCONCLUSIVE: the harness does not build against /repo's working tree")
        return 2
    build_s = time.time() - t0
    threads = max(2, NCPU // 2)
    timeout = 480 if tier == "quick" else 7200
    handles = [run_native(sub, pid, tier, seed, threads, timeout) for sub in ("dbg", "rel")]
    results = [finish_native(h) for h in handles]
    if quick_asan:
        # after dbg/rel so that the three do not fight for the cores; enumeration + 10% of the random cases
        results.append(finish_native(run_native("asan", pid, tier, seed, NCPU, timeout, extra=["--scale", "0.1"])))

    if tier == "thorough":
        import thorough
        results += thorough.run_extra(sys.modules[__name__], pid, seed)

    violations = []
    inconclusive = []
    for r in results:
        violations += [(r["sub"], v) for v in r["violations"]]
        if r["status"] in ("timeout", "error"):
            inconclusive.append("%s: %s %s" % (r["sub"], r["status"], r.get("note", "")))
    known = dict(load_known(pid))
    known_lines = []
    hit = {}
    for r in results:
        st = r.get("stats") or {}
        for sig, n in (st.get("known_hits") or {}).items():
            hit[sig] = hit.get(sig, 0) + n
    for sig, n in sorted(hit.items()):
        line = "KNOWN-FINDING: property=%s %s" % (pid, known.get(sig, sig))
        print(line)
        known_lines.append({"sig": sig, "cases": n, "text": known.get(sig, "")})
    wall = time.time() - t0
    write_evidence(pid, tier, seed, PROPS[pid]["level"], results, wall, len(violations), extra_cov={"build_s": round(build_s, 2)}, known_lines=known_lines)
    for r in results:
        st = r.get("stats")
        if st and not st.get("partial"):
            log("[%s %s] %d cases (%d regression, %d enumerated, %d random), %d distinct non-trivial, %.1fs%s" % (
                pid, r["sub"], st["evaluations"], st["regressions_replayed"], st["enumerated"], st["random"], st["distinct_nontrivial"], st["wall_s"],
                (" ; MISSING essential classes: %s" % st["essential_classes_missing"]) if st.get("essential_classes_missing") else ""))
        else:
            log("[%s %s] %s %s" % (pid, r["sub"], r["status"], r.get("note", "")))
    seen = set()
    for sub, v in violations:
        if v["replay"] in seen:
            continue
        seen.add(v["replay"])
        log("  %s [%s] %s :: %s" % (pid, sub, v["sig"], v["verdict"][:500]))
        print("VIOLATION property=%s replay=%s" % (pid, v["replay"]))
    if violations:
        return 1
    if inconclusive:
        for i in inconclusive:
            log("INCONCLUSIVE:", i)
        return 2
    return 0
