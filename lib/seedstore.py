#!/usr/bin/env python3
"""Stores confirmed seeded changes under /verif/seeded/<id>/ (patch.diff, demo.rs, meta.json).

  seedstore.py <seed-root> <offset> <round-label>
     <seed-root>/Cxx/OUT/N/ + confirm.json + matrix.json  ->  /verif/seeded/Cxx-(N+offset)/
"""
import json
import os
import shutil
import sys


def main():
    root, offset, label = sys.argv[1], int(sys.argv[2]), sys.argv[3]
    conf = {r["id"]: r for r in json.load(open(os.path.join(root, "confirm.json")))}
    mp = os.path.join(root, "matrix.json")
    mat = json.load(open(mp)) if os.path.exists(mp) else {}
    n = 0
    for sid, r in sorted(conf.items()):
        if not r.get("confirmed"):
            continue
        pid, k = sid.split("-")
        src = os.path.join(root, pid, "OUT", k)
        nid = "%s-%d" % (pid, int(k) + offset)
        dst = os.path.join("/verif/seeded", nid)
        os.makedirs(dst, exist_ok=True)
        shutil.copy(os.path.join(src, "patch.diff"), os.path.join(dst, "patch.diff"))
        shutil.copy(os.path.join(src, "demo.rs"), os.path.join(dst, "demo.rs"))
        agent = json.load(open(os.path.join(src, "meta.json")))
        row = mat.get(sid, {})
        caught = [c for c in sorted(row) if isinstance(row[c], dict) and row[c].get("exit") == 1]
        inconcl = [c for c in sorted(row) if isinstance(row[c], dict) and row[c].get("exit") not in (0, 1)]
        old = {}
        mpath = os.path.join(dst, "meta.json")
        if os.path.exists(mpath):
            old = json.load(open(mpath))
        meta = {
            "id": nid, "property": pid, "round": label,
            "summary": agent.get("summary", ""), "needs": agent.get("needs", ""), "files": agent.get("files", []),
            "demo_cmd": agent.get("demo_cmd", ""),
            "origin": "produced by a fresh sub-agent that was given only property text (%s; round 2 also the list of changes already tried) and a scratch git worktree of /repo (nothing from /verif)" % pid,
            "confirmed_by_me": {
                "how": "lib/seedtest.py confirm: in the scratch worktree, git apply patch.diff; cargo test --offline (134 unit + 70 doc tests); tests/demo.rs with the change; git checkout -- src; tests/demo.rs without the change",
                "unit_and_doc_tests_pass_with_change": r["suite_pass_with_change"], "suite": r["suite_with_change"],
                "demo_fails_with_change": r["demo_fails_with_change"], "demo_passes_without_change": r["demo_passes_without_change"],
                "demo_run_with_release": r["release_needed"]},
            "checks_run": "lib/seedtest.py matrix: every quick check (C01..C20) against the change in a scratch clone of /verif + /repo",
            "caught_by_at_first_run": caught, "inconclusive_at_first_run": inconcl,
            "first_signature": {c: row[c]["first"][:1] for c in caught},
            "primary_check_caught_it_at_first_run": pid in caught,
        }
        if "after_strengthening" in old:
            meta["after_strengthening"] = old["after_strengthening"]
        json.dump(meta, open(mpath, "w"), indent=1)
        n += 1
    print("stored", n)


if __name__ == "__main__":
    main()
