"""Extra substrates of the thorough tier: ASan build of the worker, a Miri batch of natively
generated cases, and a fixed-run coverage-guided libFuzzer campaign whose input bytes are the
random stream of the property's proptest strategy."""
import glob
import json
import os
import random
import re
import shutil
import subprocess
import time

# property -> (miri batch size, libFuzzer runs per process)
PLAN = {
    "C01": (384, 150_000), "C02": (2560, 100_000), "C03": (2560, 100_000), "C04": (1920, 150_000), "C05": (384, 150_000),
    "C06": (960, 100_000), "C07": (960, 100_000), "C08": (2560, 250_000), "C09": (2560, 250_000), "C10": (2560, 250_000),
    "C11": (512, 100_000), "C12": (960, 100_000), "C13": (1920, 100_000), "C14": (1920, 100_000), "C15": (960, 100_000),
    "C16": (960, 100_000), "C17": (960, 100_000), "C18": (640, 100_000), "C19": (640, 250_000), "C20": (1920, 100_000),
}
# TDV_FUZZ_SCALE / TDV_MIRI_SCALE multiply the planned sizes (long background campaigns)
_FS = float(os.environ.get("TDV_FUZZ_SCALE", "1"))
_MS = float(os.environ.get("TDV_MIRI_SCALE", "1"))
PLAN = {k: (int(v[0] * _MS), int(v[1] * _FS)) for k, v in PLAN.items()}
FUZZ_PROCS = 8
MIRI_SHARDS = 16
# Aliasing-model checking (Stacked / Tree Borrows) is switched off on purpose: it reports
# `ptr::swap(pa, pb)` with both pointers re-borrowed from the same slice (sort.rs, ops.rs, toodee.rs)
# and DrainCol::drop writing under its own shared slice -- experimental-model violations that no
# listed property is about (see DESIGN.md 7). Miri still checks bounds, dangling / freed memory,
# uninitialised reads, double frees, alignment and invalid values.
MIRI_FLAGS = "-Zmiri-ignore-leaks -Zmiri-disable-isolation -Zmiri-disable-stacked-borrows"


def asan_bin(drv):
    return os.path.join(drv.HARNESS, "target", "asan", "x86_64-unknown-linux-gnu", "release", "tdcheck")


def build_asan(drv):
    env = drv.env_offline()
    env["RUSTFLAGS"] = "-Zsanitizer=address -Cdebug-assertions=on -Coverflow-checks=on"
    p = subprocess.run(["cargo", "+nightly", "build", "--release", "--bin", "tdcheck", "--target", "x86_64-unknown-linux-gnu", "--target-dir", os.path.join(drv.HARNESS, "target", "asan")],
                       cwd=drv.HARNESS, env=env, stdout=subprocess.PIPE, stderr=subprocess.STDOUT, text=True)
    return None if p.returncode == 0 else "\n".join(p.stdout.splitlines()[-30:])


def run_asan(drv, pid, seed):
    err = drv.build(["asan"])
    if err:
        return {"sub": "asan", "status": "error", "stats": None, "violations": [], "note": "ASan build failed: " + err[-500:], "wall_s": 0}
    h = drv.run_native("asan", pid, "thorough", seed, max(2, drv.NCPU), 3600, extra=["--scale", "0.08"])
    return drv.finish_native(h)


def run_miri(drv, pid, seed):
    t0 = time.time()
    n = PLAN[pid][0]
    wd = os.path.join(drv.VERIF, "work", pid, "miri")
    shutil.rmtree(wd, ignore_errors=True)
    os.makedirs(wd, exist_ok=True)
    batch = os.path.join(wd, "batch.jsonl")
    p = subprocess.run([drv.bin_path("dbg"), "gen", pid, "--n", str(n), "--seed", str(seed), "--tier", "quick", "--file", batch], stdout=subprocess.PIPE, stderr=subprocess.STDOUT, text=True)
    if p.returncode != 0 or not os.path.exists(batch):
        return {"sub": "miri", "status": "error", "stats": None, "violations": [], "note": "batch generation failed: " + p.stdout[-300:], "wall_s": 0}
    lines = open(batch).read().splitlines()
    env = drv.env_offline()
    env["MIRIFLAGS"] = MIRI_FLAGS
    env["TDV_SUBSTRATE"] = "miri"
    tdir = os.path.join(drv.HARNESS, "target", "miri")
    # build once (serially) so that the shards do not fight over the cargo lock
    b = subprocess.run(["cargo", "+nightly", "miri", "run", "--bin", "tdcheck", "--target-dir", tdir, "--", "batch", pid, "--file", batch, "--shard", "999999", "--nshards", "1000000", "--known", os.path.join(drv.VERIF, "known_findings.txt")],
                       cwd=drv.HARNESS, env=env, stdout=subprocess.PIPE, stderr=subprocess.PIPE, text=True)
    if "BATCHDONE" not in b.stdout:
        return {"sub": "miri", "status": "error", "stats": None, "violations": [], "note": "miri build/run failed: " + (b.stderr or "")[-600:], "wall_s": time.time() - t0}
    procs = []
    for sh in range(MIRI_SHARDS):
        cmd = ["cargo", "+nightly", "miri", "run", "--bin", "tdcheck", "--target-dir", tdir, "--", "batch", pid, "--file", batch, "--shard", str(sh), "--nshards", str(MIRI_SHARDS), "--known", os.path.join(drv.VERIF, "known_findings.txt")]
        procs.append(subprocess.Popen(cmd, cwd=drv.HARNESS, env=env, stdout=subprocess.PIPE, stderr=subprocess.PIPE, text=True))
    ran = nt = 0
    violations = []
    notes = []
    status = "ok"
    deadline = t0 + 5400
    for sh, pr in enumerate(procs):
        try:
            out, err = pr.communicate(timeout=max(5, deadline - time.time()))
        except subprocess.TimeoutExpired:
            pr.kill()
            out, err = pr.communicate()
            status = "timeout"
            notes.append("shard %d hit the watchdog" % sh)
            continue
        last = None
        for l in out.splitlines():
            if l.startswith("CASE "):
                last = int(l.split()[1])
            elif l.startswith("FAIL "):
                idx = int(l.split()[1])
                rest = l.split(" ", 2)[2]
                sig, _, msg = rest.partition("\x01")
                case = json.loads(lines[idx])
                path = drv.save_replay(pid, "miri", seed, case, sig, msg, "miri-batch")
                violations.append({"sig": sig, "verdict": msg, "replay": path})
            elif l.startswith("BATCHDONE"):
                kv = dict(x.split("=") for x in l.split()[1:])
                ran += int(kv["ran"])
                nt += int(kv["nontrivial"])
        if "BATCHDONE" not in out:
            if "Undefined Behavior" in err or "error: " in err:
                tail = [x for x in err.splitlines() if x.startswith("error")][:2]
                if last is not None:
                    case = json.loads(lines[last])
                    path = drv.save_replay(pid, "miri", seed, case, "miri-undefined-behaviour", "Miri stopped while executing this case: " + " | ".join(tail), "miri-batch")
                    violations.append({"sig": "miri-undefined-behaviour", "verdict": " | ".join(tail), "replay": path})
                else:
                    status = "error"
                    notes.append("shard %d: miri error before the first case: %s" % (sh, " | ".join(tail)))
            else:
                status = "error"
                notes.append("shard %d ended without BATCHDONE (exit %s)" % (sh, pr.returncode))
    stats = {"evaluations": ran, "regressions_replayed": 0, "enumerated": 0, "random": ran, "distinct_nontrivial": nt, "classes": {}, "samples": [json.loads(lines[0])] if lines else [],
             "rule": "", "bound": "", "exhaustive": False, "known_hits": {}, "threads": MIRI_SHARDS, "wall_s": time.time() - t0, "essential_classes_missing": []}
    return {"sub": "miri", "status": status, "stats": stats, "violations": violations, "note": "; ".join(notes), "wall_s": time.time() - t0}


def fuzz_bin(drv, name):
    return os.path.join(drv.VERIF, "fuzz", "target", "x86_64-unknown-linux-gnu", "release", name)


def build_fuzz(drv):
    fz = os.path.join(drv.VERIF, "fuzz")
    if not os.path.exists(os.path.join(fz, "Cargo.lock")):
        shutil.copy("/repo/Cargo.lock", os.path.join(fz, "Cargo.lock"))
    p = subprocess.run(["cargo", "+nightly", "fuzz", "build", "--fuzz-dir", fz], cwd=fz, env=drv.env_offline(), stdout=subprocess.PIPE, stderr=subprocess.STDOUT, text=True)
    return None if p.returncode == 0 else "\n".join([l for l in p.stdout.splitlines() if not l.strip().startswith(("at ", "0:", "1:", "2:", "3:", "4:", "5:", "6:", "7:", "8:", "9:", "10:"))][-25:])


def run_fuzz(drv, pid, seed):
    t0 = time.time()
    err = build_fuzz(drv)
    if err:
        return [{"sub": "fuzz", "status": "error", "stats": None, "violations": [], "note": "cargo fuzz build failed: " + err[-600:], "wall_s": 0}]
    runs = PLAN[pid][1]
    targets = [("props", pid)]
    if pid == "C19":
        targets.append(("serde_raw", pid))
    results = []
    for tname, _ in targets:
        sub = "fuzz" if tname == "props" else "fuzz-raw"
        wd = os.path.join(drv.VERIF, "work", pid, sub)
        shutil.rmtree(wd, ignore_errors=True)
        procs = []
        for i in range(FUZZ_PROCS):
            d = os.path.join(wd, "p%d" % i)
            corpus = os.path.join(d, "corpus")
            art = os.path.join(d, "artifacts")
            os.makedirs(corpus)
            os.makedirs(art)
            rnd = random.Random(seed * 1000 + i)
            if tname == "props":
                # libFuzzer ramps input length slowly from an empty corpus: start from random
                # byte strings of full length (the strategies read them as their random stream)
                for j in range(24):
                    open(os.path.join(corpus, "seed%d" % j), "wb").write(bytes(rnd.getrandbits(8) for _ in range(rnd.choice([64, 256, 1024, 2048]))))
            else:
                golden = ['{"num_cols":2,"num_rows":2,"data":[1,2,3,4]}', '{"data":[],"num_rows":0,"num_cols":0}', '{"num_cols":1,"num_rows":3,"data":["a","b","c"]}',
                          '{"num_cols":0,"num_rows":5,"data":[]}', '{"num_cols":9223372036854775808,"num_rows":2,"data":[]}', '{"num_cols":2,"num_rows":1,"data":[null,7],"data":[1,2]}', '[1,2]', '{"num_cols":-1}']
                for j, g in enumerate(golden):
                    open(os.path.join(corpus, "g%d" % j), "w").write(g)
            env = dict(os.environ)
            env.update({"TDV_PROP": pid, "TDV_FUZZ_OUT": d, "TDV_KNOWN": os.path.join(drv.VERIF, "known_findings.txt"), "ASAN_OPTIONS": "detect_leaks=0:detect_odr_violation=0:abort_on_error=1"})
            cmd = [fuzz_bin(drv, tname), corpus, "-runs=%d" % runs, "-seed=%d" % (seed * 7919 + i + 1), "-len_control=0", "-max_len=%d" % (4096 if tname == "props" else 512),
                   "-detect_leaks=0", "-timeout=60", "-rss_limit_mb=4096", "-artifact_prefix=%s/" % art, "-print_final_stats=1", "-verbosity=0"]
            if tname != "props":
                dic = os.path.join(d, "dict")
                open(dic, "w").write('"num_cols"\n"num_rows"\n"data"\n"\\"num_cols\\":"\n"\\"num_rows\\":"\n"\\"data\\":["\n"18446744073709551615"\n"9223372036854775808"\n"4294967296"\n"null"\n"-1"\n"1.5"\n')
                cmd.append("-dict=" + dic)
            procs.append((i, d, art, subprocess.Popen(cmd, stdout=subprocess.PIPE, stderr=subprocess.PIPE, text=True, env=env)))
        execs = 0
        violations = []
        notes = []
        status = "ok"
        for i, d, art, pr in procs:
            try:
                out, errout = pr.communicate(timeout=7200)
            except subprocess.TimeoutExpired:
                pr.kill()
                pr.communicate()
                status = "timeout"
                continue
            for l in errout.splitlines():
                if l.startswith("stat::number_of_executed_units:"):
                    execs += int(l.split(":")[-1])
            if pr.returncode == 0:
                continue
            fails = glob.glob(os.path.join(d, "fail-fuzz-*.json"))
            arts = os.listdir(art)
            if fails:
                for f in fails:
                    doc = json.load(open(f))
                    path = drv.save_replay(pid, sub, seed, doc["case"], doc["sig"], doc["verdict"], "libfuzzer")
                    violations.append({"sig": doc["sig"], "verdict": doc["verdict"], "replay": path})
            elif any(a.startswith("crash-") for a in arts) and re.search(r"AddressSanitizer: (out of memory|requested allocation size|allocation-size-too-big)", errout):
                # the allocator gave up: resource exhaustion is inconclusive, never a violation
                status = "timeout"
                notes.append("process %d: the sanitizer's allocator ran out of memory (inconclusive, not a violation): %s" % (i, " | ".join([x for x in errout.splitlines() if "ERROR" in x][:1])))
            elif any(a.startswith("crash-") for a in arts):
                # memory error / abort inside the code under test: decode the input, confirm natively
                for a in [a for a in arts if a.startswith("crash-")][:3]:
                    env2 = dict(os.environ)
                    env2.update({"TDV_PROP": pid, "TDV_DECODE": "1"})
                    dec = subprocess.run([fuzz_bin(drv, tname), os.path.join(art, a)], stdout=subprocess.PIPE, stderr=subprocess.PIPE, text=True, env=env2)
                    case = None
                    for l in dec.stdout.splitlines():
                        if l.startswith("DECODED "):
                            case = json.loads(l[8:])
                    tail = " | ".join([x for x in errout.splitlines() if "ERROR" in x or "SUMMARY" in x][:2])
                    if case is not None:
                        path = drv.save_replay(pid, sub, seed, case, "fuzz-crash", "libFuzzer/ASan stopped on this case: " + tail, "libfuzzer")
                        violations.append({"sig": "fuzz-crash", "verdict": tail, "replay": path})
                    else:
                        path = drv.save_replay(pid, sub, seed, {"raw_artifact": os.path.join(art, a)}, "fuzz-crash", tail, "libfuzzer")
                        violations.append({"sig": "fuzz-crash", "verdict": tail, "replay": path})
            elif any(a.startswith(("timeout-", "oom-", "slow-unit-")) for a in arts):
                status = "timeout"
                notes.append("process %d: libFuzzer reported a timeout/oom unit (inconclusive, not a violation)" % i)
            else:
                status = "error"
                notes.append("process %d exited with %s: %s" % (i, pr.returncode, errout[-200:]))
        stats = {"evaluations": execs, "regressions_replayed": 0, "enumerated": 0, "random": execs, "distinct_nontrivial": 0, "classes": {}, "samples": [], "rule": "", "bound": "",
                 "exhaustive": False, "known_hits": {}, "threads": FUZZ_PROCS, "wall_s": time.time() - t0, "essential_classes_missing": []}
        # non-trivial counts reported by the targets themselves
        for i in range(FUZZ_PROCS):
            pj = os.path.join(wd, "p%d" % i, "progress.json")
            if os.path.exists(pj):
                try:
                    stats["distinct_nontrivial"] += json.load(open(pj)).get("nontrivial", 0) * 0  # executions, not distinct: reported separately
                    stats.setdefault("nontrivial_executions", 0)
                    stats["nontrivial_executions"] += json.load(open(pj)).get("nontrivial", 0)
                except Exception:
                    pass
        results.append({"sub": sub, "status": status, "stats": stats, "violations": violations, "note": "; ".join(notes), "wall_s": time.time() - t0})
    return results


def run_extra(drv, pid, seed):
    out = []
    skip = os.environ.get("TDV_SKIP", "").split(",")
    if "asan" not in skip:
        out.append(run_asan(drv, pid, seed))
    if "fuzz" not in skip:
        out += run_fuzz(drv, pid, seed)
    if "miri" not in skip:
        out.append(run_miri(drv, pid, seed))
    return out
