#!/usr/bin/env python3
"""Confirms seeded changes delivered by sub-agents and measures which checks catch them.

  seedtest.py confirm <dir-with-Cxx/OUT/N>      confirm (tests pass with change, demo fails with / passes without)
  seedtest.py matrix <seed-root> <scratch-root> [ids...]   run every check against every confirmed change in a scratch
                                                 clone of /verif + /repo (so /repo itself stays untouched)

Results: <seed-root>/confirm.json, <seed-root>/matrix.json
"""
import json
import os
import re
import shutil
import subprocess
import sys
import time

ENV = dict(os.environ, CARGO_NET_OFFLINE="true", CARGO_TERM_COLOR="never")
PROPS = ["C%02d" % i for i in range(1, 21)]


def sh(cmd, cwd=None, timeout=1800):
    p = subprocess.run(cmd, cwd=cwd, shell=isinstance(cmd, str), stdout=subprocess.PIPE, stderr=subprocess.STDOUT, text=True, env=ENV, timeout=timeout)
    return p.returncode, p.stdout


def variants(seed_root):
    out = []
    for pid in PROPS:
        for n in ("1", "2", "3"):
            d = os.path.join(seed_root, pid, "OUT", n)
            if os.path.exists(os.path.join(d, "patch.diff")) and os.path.exists(os.path.join(d, "demo.rs")):
                out.append((pid, n, d))
    return out


def confirm_one(pid, n, d, seed_root):
    wt = os.path.join(seed_root, pid)
    res = {"id": "%s-%s" % (pid, n), "property": pid}
    meta = {}
    try:
        meta = json.load(open(os.path.join(d, "meta.json")))
    except Exception as e:
        res["meta_error"] = str(e)
    demo_cmd = meta.get("demo_cmd", "") or ""
    # only the command itself counts, not remarks such as "(no --release needed)"
    head = re.split(r"[(;]| - | -- needs| \u2014 ", demo_cmd)[0]
    m_cmd = re.search(r"cargo test[^\n(;]*", demo_cmd)
    release = "--release" in (m_cmd.group(0) if m_cmd else head)
    sh("git checkout -- . && rm -rf tests", cwd=wt)
    rc, out = sh(["git", "apply", "--check", os.path.join(d, "patch.diff")], cwd=wt)
    res["applies"] = rc == 0
    if rc != 0:
        res["error"] = out[-400:]
        return res
    sh(["git", "apply", os.path.join(d, "patch.diff")], cwd=wt)
    rc, out = sh("cargo test --offline 2>&1", cwd=wt)
    m = re.findall(r"test result: (\w+)\. (\d+) passed; (\d+) failed", out)
    res["suite_with_change"] = m
    res["suite_pass_with_change"] = rc == 0 and len(m) >= 2 and all(x[0] == "ok" for x in m) and int(m[0][1]) == 134
    os.makedirs(os.path.join(wt, "tests"), exist_ok=True)
    shutil.copy(os.path.join(d, "demo.rs"), os.path.join(wt, "tests", "demo.rs"))
    cmd = "cargo test --offline --test demo %s 2>&1" % ("--release" if release else "")
    if meta.get("detector") in ("miri", "asan") and re.match(r"^\s*(MIRIFLAGS=|RUSTFLAGS=|cargo )", demo_cmd):
        # instrumented demo: run the agent's exact command
        cmd = demo_cmd.strip() + " 2>&1"
        res["instrumented_demo_cmd"] = demo_cmd.strip()
    rc1, out1 = sh(cmd, cwd=wt)
    res["demo_fails_with_change"] = rc1 != 0
    res["demo_with_change_tail"] = out1[-300:]
    sh("git checkout -- src", cwd=wt)
    rc2, out2 = sh(cmd, cwd=wt)
    res["demo_passes_without_change"] = rc2 == 0
    if rc2 != 0:
        res["demo_without_change_tail"] = out2[-300:]
    sh("rm -rf tests", cwd=wt)
    res["release_needed"] = release
    res["confirmed"] = bool(res["suite_pass_with_change"] and res["demo_fails_with_change"] and res["demo_passes_without_change"])
    res["summary"] = meta.get("summary", "")
    res["needs"] = meta.get("needs", "")
    return res


def cmd_confirm(seed_root, only=None):
    cpath = os.path.join(seed_root, "confirm.json")
    results = json.load(open(cpath)) if os.path.exists(cpath) else []
    for pid, n, d in variants(seed_root):
        if only and pid not in only and "%s-%s" % (pid, n) not in only:
            continue
        results = [r for r in results if r["id"] != "%s-%s" % (pid, n)]
        r = confirm_one(pid, n, d, seed_root)
        print(r["id"], "confirmed" if r.get("confirmed") else "NOT CONFIRMED", {k: r.get(k) for k in ("applies", "suite_pass_with_change", "demo_fails_with_change", "demo_passes_without_change")}, flush=True)
        results.append(r)
    json.dump(results, open(os.path.join(seed_root, "confirm.json"), "w"), indent=1)


def cmd_matrix(seed_root, scratch, only=None, checks=None, thorough_primary=False):
    verif = os.path.join(scratch, "verif")
    repo = os.path.join(scratch, "repo")
    if not os.path.exists(repo):
        os.makedirs(scratch, exist_ok=True)
        rc, out = sh(["git", "-C", "/repo", "worktree", "add", "--detach", repo, "HEAD"])
        assert rc == 0, out
    if not (os.environ.get("SEEDTEST_NO_SYNC") and os.path.exists(verif)):
        # (SEEDTEST_NO_SYNC=1: keep the clone taken earlier, so that a long matrix measures one fixed
        # state of the checks even while /verif is being edited)
        sh(["rsync", "-a", "--delete", "--exclude", "harness/target", "--exclude", "work", "--exclude", "replays", "--exclude", ".git", "/verif/", verif + "/"])
        ct = os.path.join(verif, "harness", "Cargo.toml")
        s = open(ct).read().replace('path = "/repo"', 'path = "%s"' % repo)
        open(ct, "w").write(s)
    confirmed = {r["id"]: r for r in json.load(open(os.path.join(seed_root, "confirm.json")))}
    mpath = os.path.join(seed_root, "matrix.json")
    matrix = json.load(open(mpath)) if os.path.exists(mpath) else {}
    for pid, n, d in variants(seed_root):
        sid = "%s-%s" % (pid, n)
        if only and sid not in only and pid not in only:
            continue
        if not confirmed.get(sid, {}).get("confirmed"):
            continue
        sh("git checkout -- .", cwd=repo)
        rc, out = sh(["git", "apply", os.path.join(d, "patch.diff")], cwd=repo)
        if rc != 0:
            matrix[sid] = {"error": "patch does not apply: " + out[-200:]}
            continue
        row = matrix.get(sid, {})
        t0 = time.time()
        for chk in (checks or PROPS):
            rc, out = sh([os.path.join(verif, "check"), chk, "quick"], cwd=verif, timeout=3600)
            viol = [l for l in out.splitlines() if l.startswith("VIOLATION")]
            sigs = [l.strip()[:220] for l in out.splitlines() if re.match(r"^\s+C\d\d \[", l)]
            row[chk] = {"exit": rc, "violations": len(viol), "first": sigs[:2]}
        if thorough_primary:
            env2 = dict(ENV, TDV_SKIP="fuzz")
            p2 = subprocess.run([os.path.join(verif, "check"), pid, "thorough"], cwd=verif, stdout=subprocess.PIPE, stderr=subprocess.STDOUT, text=True, env=env2, timeout=7200)
            sigs = [l.strip()[:220] for l in p2.stdout.splitlines() if re.match(r"^\s+C\d\d \[", l)]
            row["thorough:" + pid] = {"exit": p2.returncode, "first": sigs[:3]}
        matrix[sid] = row
        caught = [c for c in row if isinstance(row[c], dict) and row[c].get("exit") == 1]
        print(sid, "caught by", caught, "primary:", "YES" if pid in caught else "no", "(%.0fs)" % (time.time() - t0), flush=True)
        json.dump(matrix, open(mpath, "w"), indent=1)
        sh("git checkout -- .", cwd=repo)
    sh("git checkout -- .", cwd=repo)


if __name__ == "__main__":
    if sys.argv[1] == "confirm":
        cmd_confirm(sys.argv[2], only=set(sys.argv[3:]) or None)
    elif sys.argv[1] == "matrix":
        args = [a for a in sys.argv[4:] if not a.startswith("--")]
        if "--primary-only" in sys.argv:
            # one check per change: the property it was written against
            for pid in PROPS:
                cmd_matrix(sys.argv[2], sys.argv[3], only={pid} if not args else ({pid} & set(args) or {"-"}), checks=[pid], thorough_primary="--thorough-primary" in sys.argv)
        else:
            cmd_matrix(sys.argv[2], sys.argv[3], only=set(args) or None, thorough_primary="--thorough-primary" in sys.argv)
