#!/bin/sh
# Runs quick checks of the CURRENT /verif against a patched scratch worktree of /repo, without touching /repo.
#   lib/trypatch.sh <scratch-root> <patch.diff> <Cxx> [Cxx...]
# <scratch-root>/repo is a detached worktree of /repo (created on first use), <scratch-root>/verif a copy of /verif
# whose harness depends on it.  Remove both when done:
#   git -C /repo worktree remove --force <scratch-root>/repo; rm -rf <scratch-root>
set -e
S="$1"; P="$2"; shift 2
mkdir -p "$S"
[ -d "$S/repo" ] || git -C /repo worktree add --detach "$S/repo" HEAD >/dev/null 2>&1
rsync -a --delete --exclude harness/target --exclude work --exclude replays --exclude .git /verif/ "$S/verif/"
sed -i "s#path = \"/repo\"#path = \"$S/repo\"#" "$S/verif/harness/Cargo.toml"
git -C "$S/repo" checkout -- . 
if [ "$P" != "-" ]; then git -C "$S/repo" apply "$P"; fi
for c in "$@"; do
  echo "== $c"
  (cd "$S/verif" && ./check "$c" quick 2>&1 | grep -E "VIOLATION|^\s+C.. \[|INCONCL|KNOWN" | cut -c1-400 | head -4) || true
done
git -C "$S/repo" checkout -- .
