NOTES = "Property-based testing / fuzzing only. See DESIGN.md. Exit 2 from a check means inconclusive (build failure / watchdog), never a violation."
NOT_APPLICABLE = {}
EXPL = "generated-input search against an explicit oracle; bounded: says nothing beyond the explored shapes, lengths and case counts reported in the evidence file"
NOTE = "trusted: the hand-written reference model/oracle in /verif/harness, proptest's generators, catch_unwind for expected panics; debug (overflow + std UB checks) and release (-O, unchecked) builds of /repo's working tree"
reg("C01", "exploration", "model-based stateful property testing (proptest histories vs rows-of-cells model, shrinking)", "random histories of public calls compared with a reference model after every step; " + EXPL, NOTE, "DESIGN.md 4/C01")
reg("C05", "exploration", "model-based stateful property testing with an instrumented drop ledger (proptest, shrinking)", "random histories on elements with drop side effects, ledger oracle after every step; " + EXPL, NOTE, "DESIGN.md 4/C05")
