#![no_main]
//! C19 on raw bytes: any byte string is a "document". Oracle: never panics; an accepted
//! array satisfies the shape invariant and its dimensions / cells are stated in the document
//! (reference = an independent parse of the same bytes into serde_json::Value).
use libfuzzer_sys::fuzz_target;
use serde_json::Value;
use tdverif::runner::*;
use toodee::*;

fn fail(data: &[u8], sig: &str, msg: String) -> ! {
    let doc = serde_json::json!({"property": "C19", "substrate": "fuzz", "origin": "libfuzzer-raw", "sig": sig, "verdict": msg, "case": {"raw_bytes": data}});
    if let Ok(d) = std::env::var("TDV_FUZZ_OUT") {
        let _ = std::fs::create_dir_all(&d);
        let _ = std::fs::write(format!("{}/fail-fuzz-raw-{}.json", d, data.len()), serde_json::to_string_pretty(&doc).unwrap());
    }
    eprintln!("FUZZ-FAIL property=C19 sig={} :: {}", sig, doc["verdict"]);
    std::process::abort();
}

fn check<T: serde::de::DeserializeOwned + serde::Serialize>(data: &[u8]) {
    let r = catch(|| serde_json::from_slice::<TooDee<T>>(data));
    match r {
        Err(m) => fail(data, "raw/deserialize-panicked", format!("from_slice panicked: {}", m)),
        Ok(Err(_)) => {}
        Ok(Ok(t)) => {
            let (c, r) = (t.num_cols(), t.num_rows());
            if c.checked_mul(r) != Some(t.data().len()) || (c == 0) != (r == 0) {
                fail(data, "raw/accepted-invalid-shape", format!("accepted array has size ({},{}) with {} cells", c, r, t.data().len()));
            }
            // independent parse; duplicate keys collapse in a Value map, so only check when
            // the Value states the same thing (last occurrence wins there)
            if let Ok(Value::Object(m)) = serde_json::from_slice::<Value>(data) {
                let text = String::from_utf8_lossy(data);
                let dup = |k: &str| text.matches(&format!("\"{}\"", k)).count() > 1;
                if !dup("data") && !dup("num_cols") && !dup("num_rows") {
                    if m.get("num_cols") != Some(&Value::from(c as u64)) || m.get("num_rows") != Some(&Value::from(r as u64)) {
                        fail(data, "raw/accepted-dims-not-stated", format!("accepted size ({},{}) but the document states {:?} x {:?}", c, r, m.get("num_cols"), m.get("num_rows")));
                    }
                    if m.get("data") != Some(&serde_json::to_value(t.data()).unwrap()) {
                        fail(data, "raw/accepted-cells-not-stated", "accepted cells differ from the document's data".to_string());
                    }
                }
            } else {
                fail(data, "raw/accepted-non-object", "bytes that are not a JSON object were accepted".to_string());
            }
        }
    }
}

fuzz_target!(init: install_quiet_hook(), |data: &[u8]| {
    check::<u32>(data);
    check::<String>(data);
    check::<Option<u32>>(data);
});
