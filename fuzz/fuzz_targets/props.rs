#![no_main]
//! One libFuzzer binary for every property: TDV_PROP selects the property, the input bytes
//! are the random stream of that property's proptest strategy (structured decoding for free),
//! and the property's executor is the in-target semantic oracle.
use libfuzzer_sys::fuzz_target;
use tdverif::props::*;
use tdverif::runner::*;

static mut RUN: Option<Box<dyn FnMut(&[u8])>> = None;

fn mk<P: Prop>() -> Box<dyn FnMut(&[u8])> {
    let mut st: FuzzState<P> = FuzzState::new();
    Box::new(move |data| st.one(data))
}

fn init() {
    // libfuzzer-sys installs a panic hook that aborts; the oracles catch *expected* panics
    install_quiet_hook();
    let prop = std::env::var("TDV_PROP").unwrap_or_else(|_| "C01".into());
    let f: Box<dyn FnMut(&[u8])> = match prop.as_str() {
        "C01" => mk::<c01::C01>(),
        "C02" => mk::<access::C02>(),
        "C03" => mk::<access::C03>(),
        "C04" => mk::<grid::C04>(),
        "C05" => mk::<c01::C05>(),
        "C06" => mk::<structural::C06>(),
        "C07" => mk::<structural::C07>(),
        "C08" => mk::<iters::C08>(),
        "C09" => mk::<iters::C09>(),
        "C10" => mk::<iters::C10>(),
        "C11" => mk::<fault::C11>(),
        "C12" => mk::<fault::C12>(),
        "C13" => mk::<grid::C13>(),
        "C14" => mk::<grid::C14>(),
        "C15" => mk::<grid::C15>(),
        "C16" => mk::<grid::C16>(),
        "C17" => mk::<grid::C17>(),
        "C18" => mk::<serdeprops::C18>(),
        "C19" => mk::<serdeprops::C19>(),
        "C20" => mk::<ctor::C20>(),
        other => panic!("unknown TDV_PROP {}", other),
    };
    unsafe {
        RUN = Some(f);
    }
}

fuzz_target!(init: init(), |data: &[u8]| {
    #[allow(static_mut_refs)]
    unsafe {
        if let Some(f) = RUN.as_mut() {
            f(data);
        }
    }
});
