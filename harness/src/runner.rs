//! Generic worker: replays regression inputs, runs the bounded enumeration and the
//! proptest-driven random search of one property, journals every case before it is
//! executed, counts what was explored and shrinks failures.

use proptest::strategy::{BoxedStrategy, Strategy, ValueTree};
use proptest::test_runner::{Config, RngAlgorithm, TestCaseError, TestError, TestRng, TestRunner};
use serde::de::DeserializeOwned;
use serde::Serialize;
use serde_json::{json, Value};
use std::cell::RefCell;
use std::collections::{BTreeMap, HashSet};
use std::fmt::Debug;
use std::hash::Hasher;
use std::io::Write;
use std::os::unix::fs::FileExt;
use std::panic::{catch_unwind, AssertUnwindSafe};
use std::path::{Path, PathBuf};
use std::time::Instant;

#[derive(Debug, Clone, Copy, PartialEq, Eq)]
pub enum Tier {
    Quick,
    Thorough,
}

#[derive(Debug, Clone)]
pub struct Failure {
    pub sig: String,
    pub msg: String,
}

#[macro_export]
macro_rules! fail {
    ($sig:expr, $($arg:tt)*) => {
        return Err($crate::runner::Failure { sig: ($sig).to_string(), msg: format!($($arg)*) })
    };
}
#[macro_export]
macro_rules! ensure {
    ($cond:expr, $sig:expr, $($arg:tt)*) => {
        if !($cond) {
            return Err($crate::runner::Failure { sig: ($sig).to_string(), msg: format!($($arg)*) });
        }
    };
}

pub type Verdict = Result<(), Failure>;

/// Per-case scratch: classification and the non-triviality flag.
pub struct Ctx {
    pub tier: Tier,
    pub classes: BTreeMap<String, u64>,
    pub nontrivial: bool,
    /// strict = replay mode: known findings are not tolerated inside the executor
    pub strict: bool,
}
impl Ctx {
    pub fn new(tier: Tier) -> Ctx {
        Ctx { tier, classes: BTreeMap::new(), nontrivial: false, strict: false }
    }
    #[inline]
    pub fn class(&mut self, name: &str) {
        if let Some(c) = self.classes.get_mut(name) {
            *c += 1;
        } else {
            self.classes.insert(name.to_string(), 1);
        }
    }
    #[inline]
    pub fn nt(&mut self) {
        self.nontrivial = true;
    }
}

pub trait Prop: 'static {
    type Case: Serialize + DeserializeOwned + Debug + Clone + 'static;
    const ID: &'static str;
    const LEVEL: &'static str = "exploration";
    fn rule() -> &'static str;
    fn strategy(tier: Tier) -> BoxedStrategy<Self::Case>;
    /// total number of random cases for this tier (split over the threads)
    fn random_cases(tier: Tier) -> u64;
    /// bounded exhaustive part; every thread runs the enumeration and executes its share
    fn enumerate(_tier: Tier, _emit: &mut dyn FnMut(Self::Case)) {}
    /// too expensive for the slow substrates (the Miri batch skips such cases; the native
    /// debug / release / ASan workers run them)
    fn heavy(_case: &Self::Case) -> bool {
        false
    }
    /// human-readable bound of the enumeration ("" if there is none)
    fn bound(_tier: Tier) -> String {
        String::new()
    }
    fn execute(case: &Self::Case, ctx: &mut Ctx) -> Verdict;
    /// classes whose count must not be zero (generator health)
    fn essential_classes() -> &'static [&'static str] {
        &[]
    }
    /// Brings a case decoded from raw fuzzer bytes into the domain the strategy would
    /// generate (sizes bounded, unsound combinations removed). Returns false to discard it.
    fn fuzz_sanitize(_case: &mut Self::Case) -> bool {
        true
    }
}

// ---------------------------------------------------------------------------------------------
// panic capture

thread_local! {
    static LAST_PANIC: RefCell<String> = RefCell::new(String::new());
}

pub fn install_quiet_hook() {
    let verbose = std::env::var("TDV_VERBOSE").is_ok();
    std::panic::set_hook(Box::new(move |info| {
        let msg = if let Some(s) = info.payload().downcast_ref::<&str>() {
            s.to_string()
        } else if let Some(s) = info.payload().downcast_ref::<String>() {
            s.clone()
        } else if info.payload().downcast_ref::<crate::elem::FuseBlown>().is_some() {
            "FUSE".to_string()
        } else {
            "<non-string panic>".to_string()
        };
        let loc = info.location().map(|l| format!("{}:{}", l.file(), l.line())).unwrap_or_default();
        if verbose {
            eprintln!("[panic] {} @ {}", msg, loc);
        }
        LAST_PANIC.with(|p| *p.borrow_mut() = format!("{} @ {}", msg, loc));
    }));
}

pub fn last_panic() -> String {
    LAST_PANIC.with(|p| p.borrow().clone())
}

/// Run `f`, turning a panic into `Err(message @ location)`.
pub fn catch<R>(f: impl FnOnce() -> R) -> Result<R, String> {
    match catch_unwind(AssertUnwindSafe(f)) {
        Ok(r) => Ok(r),
        Err(_) => Err(last_panic()),
    }
}

/// Was the panic that `catch` reported caused by the harness' own fuse?
pub fn was_fuse(msg: &str) -> bool {
    msg.starts_with("FUSE")
}

// ---------------------------------------------------------------------------------------------
// known findings

#[derive(Debug, Clone, Default)]
pub struct Known {
    /// (property, sig, text)
    pub entries: Vec<(String, String, String)>,
}
impl Known {
    pub fn load(path: &Path) -> Known {
        let mut k = Known::default();
        if let Ok(s) = std::fs::read_to_string(path) {
            for line in s.lines() {
                let line = line.trim();
                if let Some(rest) = line.strip_prefix("known:") {
                    let mut prop = String::new();
                    let mut sig = String::new();
                    let mut text = Vec::new();
                    for tok in rest.split_whitespace() {
                        if let Some(p) = tok.strip_prefix("property=") {
                            prop = p.to_string();
                        } else if let Some(s) = tok.strip_prefix("sig=") {
                            sig = s.to_string();
                        } else {
                            text.push(tok);
                        }
                    }
                    if !prop.is_empty() && !sig.is_empty() {
                        k.entries.push((prop, sig, text.join(" ")));
                    }
                }
            }
        }
        k
    }
    pub fn matches(&self, prop: &str, sig: &str) -> Option<&str> {
        self.entries.iter().find(|(p, s, _)| p == prop && s == sig).map(|(_, _, t)| t.as_str())
    }
}

// ---------------------------------------------------------------------------------------------
// statistics

#[derive(Default)]
pub struct Stats {
    pub evaluations: u64,
    pub regressions: u64,
    pub enumerated: u64,
    pub random: u64,
    pub nontrivial: HashSet<u64>,
    pub classes: BTreeMap<String, u64>,
    pub samples: Vec<Value>,
    pub nt_samples: Vec<Value>,
    pub failures: Vec<Value>,
    pub known_hits: BTreeMap<String, u64>,
    pub enum_complete: bool,
}
impl Stats {
    fn merge(&mut self, o: Stats) {
        self.evaluations += o.evaluations;
        self.regressions += o.regressions;
        self.enumerated += o.enumerated;
        self.random += o.random;
        self.nontrivial.extend(o.nontrivial);
        for (k, v) in o.classes {
            *self.classes.entry(k).or_insert(0) += v;
        }
        for s in o.samples {
            if self.samples.len() < 4 {
                self.samples.push(s);
            }
        }
        for s in o.nt_samples {
            if self.nt_samples.len() < 6 {
                self.nt_samples.push(s);
            }
        }
        for f in o.failures {
            let sig = f["sig"].as_str().unwrap_or("").to_string();
            if !self.failures.iter().any(|g| g["sig"].as_str() == Some(&sig)) {
                self.failures.push(f);
            }
        }
        for (k, v) in o.known_hits {
            *self.known_hits.entry(k).or_insert(0) += v;
        }
        self.enum_complete &= o.enum_complete;
    }
}

fn hash_bytes(b: &[u8]) -> u64 {
    let mut h = std::collections::hash_map::DefaultHasher::new();
    h.write(b);
    h.finish()
}

pub fn substrate() -> String {
    if let Ok(s) = std::env::var("TDV_SUBSTRATE") {
        return s;
    }
    if cfg!(debug_assertions) {
        "dbg".into()
    } else {
        "rel".into()
    }
}

pub struct WorkerOpts {
    pub tier: Tier,
    pub seed: u64,
    pub threads: usize,
    pub out_dir: PathBuf,
    pub known: Known,
    pub regress_dir: PathBuf,
    /// all | regress | enum | random
    pub mode: String,
    /// scale factor for the number of random cases (e.g. 0.05 under ASan)
    pub scale: f64,
    pub max_failures: usize,
}

struct ThreadRun<'a, P: Prop> {
    stats: Stats,
    journal: Option<std::fs::File>,
    buf: Vec<u8>,
    opts: &'a WorkerOpts,
    ignore_sigs: Vec<String>,
    tid: usize,
    _p: std::marker::PhantomData<P>,
}

impl<'a, P: Prop> ThreadRun<'a, P> {
    fn new(opts: &'a WorkerOpts, tid: usize) -> Self {
        let journal = std::fs::File::create(opts.out_dir.join(format!("journal.{}", tid))).ok();
        ThreadRun { stats: Stats { enum_complete: true, ..Stats::default() }, journal, buf: Vec::with_capacity(4096), opts, ignore_sigs: Vec::new(), tid, _p: Default::default() }
    }

    /// Execute one case with journaling and accounting. `count` is false while proptest
    /// is shrinking (the closure is re-run on simplified inputs).
    fn run_case(&mut self, case: &P::Case, count: bool) -> Verdict {
        self.buf.clear();
        self.buf.extend_from_slice(&[0u8; 8]);
        serde_json::to_writer(&mut self.buf, case).unwrap();
        let n = (self.buf.len() - 8) as u64;
        self.buf[..8].copy_from_slice(&n.to_le_bytes());
        if let Some(j) = &self.journal {
            let _ = j.write_all_at(&self.buf, 0);
        }
        let mut ctx = Ctx::new(self.opts.tier);
        crate::elem::reset();
        let r = match catch_unwind(AssertUnwindSafe(|| P::execute(case, &mut ctx))) {
            Ok(v) => v,
            Err(_) => Err(Failure { sig: "unexpected-panic-in-executor".into(), msg: format!("panic escaped the executor: {}", last_panic()) }),
        };
        crate::elem::disarm();
        let r = match r {
            Err(f) => {
                if let Some(_t) = self.opts.known.matches(P::ID, &f.sig) {
                    if count {
                        *self.stats.known_hits.entry(f.sig.clone()).or_insert(0) += 1;
                    }
                    Ok(())
                } else if self.ignore_sigs.contains(&f.sig) {
                    Ok(())
                } else {
                    Err(f)
                }
            }
            ok => ok,
        };
        if count {
            self.stats.evaluations += 1;
            if self.stats.evaluations % 20_000 == 0 || self.stats.evaluations == 64 {
                // progress survives a later crash of the worker (the driver then reports partial coverage)
                let p = json!({"evaluations": self.stats.evaluations, "distinct_nontrivial": self.stats.nontrivial.len(), "samples": self.stats.samples, "regressions_replayed": self.stats.regressions, "enumerated": self.stats.enumerated, "random": self.stats.random});
                let _ = std::fs::write(self.opts.out_dir.join(format!("progress.{}.json", self.tid)), p.to_string());
            }
            for (k, v) in ctx.classes {
                *self.stats.classes.entry(k).or_insert(0) += v;
            }
            if self.stats.samples.len() < 3 {
                self.stats.samples.push(serde_json::from_slice(&self.buf[8..]).unwrap());
            }
            if ctx.nontrivial {
                let h = hash_bytes(&self.buf[8..]);
                if self.stats.nontrivial.insert(h) && self.stats.nt_samples.len() < 3 {
                    self.stats.nt_samples.push(serde_json::from_slice(&self.buf[8..]).unwrap());
                }
            }
        }
        r
    }

    fn record_failure(&mut self, case: &P::Case, f: &Failure, origin: &str, shrunk: bool) {
        if self.stats.failures.iter().any(|g| g["sig"].as_str() == Some(f.sig.as_str())) {
            return;
        }
        let doc = json!({
            "property": P::ID, "substrate": substrate(), "seed": self.opts.seed, "origin": origin,
            "sig": f.sig, "verdict": f.msg, "shrunk": shrunk, "case": serde_json::to_value(case).unwrap(),
        });
        // also written at once, so that it survives a later hang or crash of this worker
        let live = self.opts.out_dir.join(format!("live-fail-{}-{}-{}.json", substrate(), self.tid, self.stats.failures.len()));
        let _ = std::fs::write(live, serde_json::to_string(&doc).unwrap());
        self.stats.failures.push(doc);
        self.ignore_sigs.push(f.sig.clone());
    }
}

fn derive_seed(seed: u64, prop: &str, tid: usize, round: u32) -> [u8; 32] {
    // Deliberately independent of the substrate: dbg and rel explore the same cases.
    let mut out = [0u8; 32];
    for (i, chunk) in out.chunks_mut(8).enumerate() {
        let mut h = std::collections::hash_map::DefaultHasher::new();
        h.write_u64(seed);
        h.write(prop.as_bytes());
        h.write_usize(tid);
        h.write_u32(round);
        h.write_usize(i);
        chunk.copy_from_slice(&h.finish().to_le_bytes());
    }
    out
}

pub fn load_case_file<P: Prop>(path: &Path) -> Result<P::Case, String> {
    let s = std::fs::read_to_string(path).map_err(|e| format!("{}: {}", path.display(), e))?;
    let v: Value = serde_json::from_str(&s).map_err(|e| format!("{}: {}", path.display(), e))?;
    let c = if v.get("case").is_some() { v["case"].clone() } else { v };
    serde_json::from_value(c).map_err(|e| format!("{}: case does not parse: {}", path.display(), e))
}

fn thread_main<P: Prop>(opts: &WorkerOpts, tid: usize) -> Stats {
    let mut tr: ThreadRun<'_, P> = ThreadRun::new(opts, tid);
    let nthreads = opts.threads.max(1);
    let mode = opts.mode.as_str();

    // 1. regression inputs (thread 0 only; they are few)
    if tid == 0 && (mode == "all" || mode == "regress") {
        let dir = opts.regress_dir.join(P::ID);
        let mut files: Vec<PathBuf> = std::fs::read_dir(&dir).map(|d| d.filter_map(|e| e.ok().map(|e| e.path())).filter(|p| p.extension().map_or(false, |x| x == "json")).collect()).unwrap_or_default();
        files.sort();
        for f in files {
            match load_case_file::<P>(&f) {
                Ok(case) => {
                    tr.stats.regressions += 1;
                    if let Err(fl) = tr.run_case(&case, true) {
                        tr.record_failure(&case, &fl, &format!("regression:{}", f.file_name().unwrap().to_string_lossy()), true);
                    }
                }
                Err(e) => eprintln!("warning: {}", e),
            }
        }
    }

    // 2. bounded enumeration
    if mode == "all" || mode == "enum" {
        let mut idx: u64 = 0;
        let mut emit = |case: P::Case| {
            let mine = idx % nthreads as u64 == tid as u64;
            idx += 1;
            if !mine || tr.stats.failures.len() >= opts.max_failures {
                if mine {
                    tr.stats.enum_complete = false;
                }
                return;
            }
            tr.stats.enumerated += 1;
            if let Err(fl) = tr.run_case(&case, true) {
                tr.record_failure(&case, &fl, "enumeration", false);
            }
        };
        P::enumerate(opts.tier, &mut emit);
    }

    // 3. random search with shrinking
    if mode == "all" || mode == "random" {
        let total = ((P::random_cases(opts.tier) as f64) * opts.scale).ceil() as u64;
        let mut remaining = (total + nthreads as u64 - 1) / nthreads as u64;
        let strategy = P::strategy(opts.tier);
        let mut round = 0u32;
        while remaining > 0 && tr.stats.failures.len() < opts.max_failures {
            let config = Config { cases: remaining.min(u32::MAX as u64) as u32, failure_persistence: None, max_shrink_iters: 20_000, verbose: 0, ..Config::default() };
            let rng = TestRng::from_seed(RngAlgorithm::ChaCha, &derive_seed(opts.seed, P::ID, tid, round));
            let mut runner = TestRunner::new_with_rng(config, rng);
            let counting = RefCell::new(true);
            let done = RefCell::new(0u64);
            let trc = RefCell::new(&mut tr);
            let res = runner.run(&strategy, |case| {
                let count = *counting.borrow();
                let r = trc.borrow_mut().run_case(&case, count);
                if count {
                    *done.borrow_mut() += 1;
                    trc.borrow_mut().stats.random += 1;
                }
                match r {
                    Ok(()) => Ok(()),
                    Err(f) => {
                        *counting.borrow_mut() = false;
                        Err(TestCaseError::fail(format!("{}\u{1}{}", f.sig, f.msg)))
                    }
                }
            });
            drop(trc);
            let ran = *done.borrow();
            remaining = remaining.saturating_sub(ran.max(1));
            match res {
                Ok(()) => break,
                Err(TestError::Fail(reason, case)) => {
                    let r = reason.message().to_string();
                    let (sig, msg) = match r.split_once('\u{1}') {
                        Some((a, b)) => (a.to_string(), b.to_string()),
                        None => ("unknown".to_string(), r),
                    };
                    tr.record_failure(&case, &Failure { sig, msg }, "random", true);
                }
                Err(TestError::Abort(reason)) => {
                    eprintln!("proptest aborted: {}", reason.message());
                    break;
                }
            }
            round += 1;
        }
    }
    tr.stats
}

/// Runs the whole worker for property `P`; writes `<out_dir>/stats.json`; returns the number
/// of (unlisted) failures.
pub fn run_worker<P: Prop>(opts: WorkerOpts) -> usize {
    let t0 = Instant::now();
    let _ = std::fs::create_dir_all(&opts.out_dir);
    let mut total = Stats { enum_complete: true, ..Stats::default() };
    let nthreads = opts.threads.max(1);
    let opts_ref = &opts;
    let results: Vec<Stats> = std::thread::scope(|s| {
        let handles: Vec<_> = (0..nthreads)
            .map(|tid| std::thread::Builder::new().stack_size(64 << 20).spawn_scoped(s, move || thread_main::<P>(opts_ref, tid)).unwrap())
            .collect();
        handles.into_iter().map(|h| h.join().expect("worker thread panicked")).collect()
    });
    for r in results {
        total.merge(r);
    }
    // write failing cases as replay files
    let mut replay_paths = Vec::new();
    for (i, f) in total.failures.iter().enumerate() {
        let p = opts.out_dir.join(format!("fail-{}-{}.json", substrate(), i));
        if let Ok(mut fh) = std::fs::File::create(&p) {
            let _ = fh.write_all(serde_json::to_string_pretty(f).unwrap().as_bytes());
        }
        replay_paths.push(p.to_string_lossy().to_string());
    }
    let mut samples = total.samples.clone();
    samples.extend(total.nt_samples.iter().cloned());
    let missing: Vec<&str> = P::essential_classes().iter().copied().filter(|c| total.classes.get(*c).copied().unwrap_or(0) == 0).collect();
    let out = json!({
        "property": P::ID, "substrate": substrate(), "level": P::LEVEL, "rule": P::rule(),
        "tier": if opts.tier == Tier::Quick { "quick" } else { "thorough" },
        "seed": opts.seed, "threads": nthreads, "mode": opts.mode,
        "evaluations": total.evaluations, "regressions_replayed": total.regressions,
        "enumerated": total.enumerated, "random": total.random,
        "exhaustive": total.enumerated > 0 && total.enum_complete && (opts.mode == "all" || opts.mode == "enum"),
        "bound": P::bound(opts.tier),
        "distinct_nontrivial": total.nontrivial.len(),
        "classes": total.classes, "samples": samples,
        "failures": total.failures, "failure_files": replay_paths,
        "known_hits": total.known_hits,
        "essential_classes_missing": missing,
        "wall_s": t0.elapsed().as_secs_f64(),
    });
    std::fs::write(opts.out_dir.join("stats.json"), serde_json::to_string_pretty(&out).unwrap()).expect("write stats");
    total.failures.len()
}

/// Execute a single case from a file (strict: known findings are *not* tolerated).
pub fn replay_one<P: Prop>(path: &Path, known: &Known, tolerate_known: bool) -> Result<(), Failure> {
    let case = load_case_file::<P>(path).map_err(|e| Failure { sig: "bad-replay-file".into(), msg: e })?;
    let mut ctx = Ctx::new(Tier::Quick);
    ctx.strict = true;
    crate::elem::reset();
    let r = match catch_unwind(AssertUnwindSafe(|| P::execute(&case, &mut ctx))) {
        Ok(v) => v,
        Err(_) => Err(Failure { sig: "unexpected-panic-in-executor".into(), msg: format!("panic escaped the executor: {}", last_panic()) }),
    };
    match r {
        Err(f) if tolerate_known && known.matches(P::ID, &f.sig).is_some() => {
            println!("KNOWN-FINDING: property={} {}", P::ID, known.matches(P::ID, &f.sig).unwrap());
            Ok(())
        }
        other => other,
    }
}

/// Generate `n` random cases (for the Miri batch) as JSON lines.
pub fn gen_batch<P: Prop>(tier: Tier, seed: u64, n: usize, out: &Path) {
    let strategy = P::strategy(tier);
    let config = Config { failure_persistence: None, ..Config::default() };
    let rng = TestRng::from_seed(RngAlgorithm::ChaCha, &derive_seed(seed, P::ID, 9999, 0));
    let mut runner = TestRunner::new_with_rng(config, rng);
    let mut f = std::io::BufWriter::new(std::fs::File::create(out).expect("create batch"));
    // a slice of the enumeration first (evenly spaced), then random cases
    let mut all = 0u64;
    P::enumerate(tier, &mut |_c| all += 1);
    let take_enum = (n / 2).min(all as usize);
    if take_enum > 0 {
        let step = (all as f64 / take_enum as f64).max(1.0);
        let mut next = 0f64;
        let mut i = 0u64;
        let mut taken = 0usize;
        P::enumerate(tier, &mut |c| {
            if taken < take_enum && i as f64 >= next && !P::heavy(&c) {
                serde_json::to_writer(&mut f, &c).unwrap();
                f.write_all(b"\n").unwrap();
                next += step;
                taken += 1;
            }
            i += 1;
        });
    }
    for _ in 0..(n - take_enum) {
        let mut c = strategy.new_tree(&mut runner).expect("new_tree").current();
        while P::heavy(&c) {
            c = strategy.new_tree(&mut runner).expect("new_tree").current();
        }
        serde_json::to_writer(&mut f, &c).unwrap();
        f.write_all(b"\n").unwrap();
    }
}

/// Execute a batch file, printing `CASE <n>` before each case (used under Miri, where a UB
/// report ends the process: the driver attributes it to the last marker).
pub fn run_batch<P: Prop>(path: &Path, shard: usize, nshards: usize, known: &Known) -> usize {
    let s = std::fs::read_to_string(path).expect("read batch");
    let mut fails = 0;
    let mut ran = 0u64;
    let mut nt = 0u64;
    for (i, line) in s.lines().enumerate() {
        if i % nshards != shard || line.trim().is_empty() {
            continue;
        }
        let case: P::Case = match serde_json::from_str(line) {
            Ok(c) => c,
            Err(e) => {
                eprintln!("bad batch line {}: {}", i, e);
                continue;
            }
        };
        println!("CASE {}", i);
        let mut ctx = Ctx::new(Tier::Quick);
        crate::elem::reset();
        let r = match catch_unwind(AssertUnwindSafe(|| P::execute(&case, &mut ctx))) {
            Ok(v) => v,
            Err(_) => Err(Failure { sig: "unexpected-panic-in-executor".into(), msg: format!("panic escaped the executor: {}", last_panic()) }),
        };
        crate::elem::disarm();
        ran += 1;
        if ctx.nontrivial {
            nt += 1;
        }
        if let Err(f) = r {
            if known.matches(P::ID, &f.sig).is_some() {
                println!("KNOWNHIT {} {}", i, f.sig);
            } else {
                println!("FAIL {} {}\u{1}{}", i, f.sig, f.msg.replace('\n', " "));
                fails += 1;
            }
        }
    }
    println!("BATCHDONE ran={} nontrivial={} fails={}", ran, nt, fails);
    fails
}

// ---------------------------------------------------------------------------------------------
// coverage-guided fuzzing: libFuzzer's bytes are decoded into the property's case type by the
// serde-driven byte decoder in bytefuzz.rs (all case types derive Deserialize).

pub struct FuzzState<P: Prop> {
    _p: std::marker::PhantomData<P>,
    known: Known,
    out_dir: Option<PathBuf>,
    decode_only: bool,
    execs: u64,
    nontrivial: u64,
    tier: Tier,
}

impl<P: Prop> FuzzState<P> {
    pub fn new() -> Self {
        let tier = if std::env::var("TDV_FUZZ_TIER").as_deref() == Ok("thorough") { Tier::Thorough } else { Tier::Quick };
        FuzzState {
            _p: Default::default(),
            known: Known::load(&PathBuf::from(std::env::var("TDV_KNOWN").unwrap_or_else(|_| "/verif/known_findings.txt".into()))),
            out_dir: std::env::var("TDV_FUZZ_OUT").ok().map(PathBuf::from),
            decode_only: std::env::var("TDV_DECODE").is_ok(),
            execs: 0,
            nontrivial: 0,
            tier,
        }
    }

    pub fn decode(&self, bytes: &[u8]) -> Option<P::Case> {
        let mut case: P::Case = crate::bytefuzz::from_bytes(bytes)?;
        if P::fuzz_sanitize(&mut case) {
            Some(case)
        } else {
            None
        }
    }

    /// One libFuzzer iteration. Aborts the process (after writing a replay file) on an
    /// oracle failure that is not a listed known finding.
    pub fn one(&mut self, bytes: &[u8]) {
        let Some(case) = self.decode(bytes) else { return };
        if self.decode_only {
            println!("DECODED {}", serde_json::to_string(&case).unwrap());
            return;
        }
        let mut ctx = Ctx::new(self.tier);
        crate::elem::reset();
        let r = match catch_unwind(AssertUnwindSafe(|| P::execute(&case, &mut ctx))) {
            Ok(v) => v,
            Err(_) => Err(Failure { sig: "unexpected-panic-in-executor".into(), msg: format!("panic escaped the executor: {}", last_panic()) }),
        };
        crate::elem::disarm();
        self.execs += 1;
        if ctx.nontrivial {
            self.nontrivial += 1;
        }
        if self.execs % 20000 == 0 {
            if let Some(d) = &self.out_dir {
                let _ = std::fs::write(d.join("progress.json"), format!("{{\"execs\":{},\"nontrivial\":{}}}", self.execs, self.nontrivial));
            }
        }
        if let Err(f) = r {
            if self.known.matches(P::ID, &f.sig).is_some() {
                return;
            }
            let doc = json!({"property": P::ID, "substrate": "fuzz", "origin": "libfuzzer", "sig": f.sig, "verdict": f.msg, "case": serde_json::to_value(&case).unwrap()});
            if let Some(d) = &self.out_dir {
                let _ = std::fs::create_dir_all(d);
                let _ = std::fs::write(d.join(format!("fail-fuzz-{}.json", hash_bytes(bytes))), serde_json::to_string_pretty(&doc).unwrap());
            }
            eprintln!("FUZZ-FAIL property={} sig={} :: {}", P::ID, f.sig, f.msg);
            std::process::abort();
        }
    }

    pub fn finish(&self) {
        if let Some(d) = &self.out_dir {
            let _ = std::fs::write(d.join("progress.json"), format!("{{\"execs\":{},\"nontrivial\":{}}}", self.execs, self.nontrivial));
        }
    }
}
