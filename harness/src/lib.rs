pub mod cases;
pub mod elem;
pub mod model;
pub mod props;
pub mod runner;
pub mod thin;
pub mod bytefuzz;
pub mod giant;
