//! Instrumented element types, the per-thread drop ledger and the fault fuse.
//!
//! Every entry into "caller code" (Clone, Default, Drop, comparisons, iterator
//! methods of the harness' own iterators) calls `tick`, which counts and -- if the
//! fuse is armed for exactly that call -- panics once with a `FuseBlown` payload.

use std::cell::RefCell;
use std::cmp::Ordering;

#[derive(Debug, Clone, Copy, PartialEq, Eq)]
pub struct FuseBlown;

#[derive(Default)]
pub struct Ledger {
    /// state per id: 0 = never minted, 1 = live, 2 = dropped
    state: Vec<u8>,
    pub double_drops: Vec<u64>,
    pub live_count: u64,
    pub zs_created: u64,
    pub zs_dropped: u64,
    pub ticks: u64,
    pub fuse: Option<u64>,
    pub fired: bool,
    /// ids minted since the last `mark()`
    pub minted: Vec<u64>,
    pub record_minted: bool,
}

thread_local! {
    static LEDGER: RefCell<Ledger> = RefCell::new(Ledger::default());
}

pub fn with<R>(f: impl FnOnce(&mut Ledger) -> R) -> R {
    LEDGER.with(|l| f(&mut l.borrow_mut()))
}

/// Forget everything (ids of a previous case that are still alive -- e.g. leaked on
/// purpose -- simply become unknown; nothing from a previous case is ever touched again).
pub fn reset() {
    with(|l| {
        l.state.clear();
        l.state.push(2); // id 0 is never valid
        l.double_drops.clear();
        l.live_count = 0;
        l.zs_created = 0;
        l.zs_dropped = 0;
        l.ticks = 0;
        l.fuse = None;
        l.fired = false;
        l.minted.clear();
        l.record_minted = false;
    })
}

pub fn mint_id() -> u64 {
    with(|l| {
        if l.state.is_empty() {
            l.state.push(2);
        }
        let id = l.state.len() as u64;
        l.state.push(1);
        l.live_count += 1;
        if l.record_minted {
            l.minted.push(id);
        }
        id
    })
}

fn drop_id(id: u64) {
    with(|l| {
        match l.state.get(id as usize).copied() {
            Some(1) => {
                l.state[id as usize] = 2;
                l.live_count -= 1;
            }
            // ids from before the last reset() are unknown: ignore them
            None => {}
            _ => l.double_drops.push(id),
        }
    })
}

pub fn is_live(id: u64) -> bool {
    with(|l| l.state.get(id as usize).copied() == Some(1))
}
pub fn live_count() -> u64 {
    with(|l| l.live_count)
}
pub fn live_ids() -> Vec<u64> {
    with(|l| l.state.iter().enumerate().filter(|(_, s)| **s == 1).map(|(i, _)| i as u64).collect())
}
pub fn double_drops() -> Vec<u64> {
    with(|l| l.double_drops.clone())
}
pub fn ticks() -> u64 {
    with(|l| l.ticks)
}
pub fn arm(fuse: Option<u64>) {
    with(|l| {
        l.ticks = 0;
        l.fuse = fuse;
        l.fired = false;
    })
}
pub fn disarm() {
    with(|l| l.fuse = None)
}
pub fn fired() -> bool {
    with(|l| l.fired)
}
pub fn start_minted_log() {
    with(|l| {
        l.minted.clear();
        l.record_minted = true;
    })
}
pub fn take_minted_log() -> Vec<u64> {
    with(|l| {
        l.record_minted = false;
        std::mem::take(&mut l.minted)
    })
}

/// One call into caller-supplied code.
#[inline]
pub fn tick() {
    let blow = with(|l| {
        let n = l.ticks;
        l.ticks += 1;
        if l.fuse == Some(n) && !l.fired && !std::thread::panicking() {
            l.fired = true;
            true
        } else {
            false
        }
    });
    if blow {
        std::panic::panic_any(FuseBlown);
    }
}

/// Common interface of the element types the history / fault engines are generic over.
pub trait Elem: Sized + 'static {
    /// has a ledger identity
    const TRACKED: bool;
    const ZST: bool;
    /// every minted value has its own id (also without a ledger)
    const UNIQUE: bool = true;
    const NAME: &'static str;
    fn mint(key: u8) -> Self;
    fn id(&self) -> u64;
    fn key(&self) -> u8;
    /// what `Ord for Self` compares
    fn ord_key(&self) -> u64 {
        self.key() as u64
    }
}

// ---------------------------------------------------------------------------------------------
/// Tracked element without heap ownership: a double drop is harmless but recorded.
#[derive(Debug)]
pub struct Tr {
    pub id: u64,
    pub key: u8,
}
impl Elem for Tr {
    const TRACKED: bool = true;
    const ZST: bool = false;
    const NAME: &'static str = "Tr";
    fn mint(key: u8) -> Self {
        Tr { id: mint_id(), key }
    }
    fn id(&self) -> u64 {
        self.id
    }
    fn key(&self) -> u8 {
        self.key
    }
}
impl Clone for Tr {
    fn clone(&self) -> Self {
        tick();
        Tr { id: mint_id(), key: self.key }
    }
}
impl Default for Tr {
    fn default() -> Self {
        tick();
        Tr { id: mint_id(), key: 0 }
    }
}
impl Drop for Tr {
    fn drop(&mut self) {
        drop_id(self.id);
        tick();
    }
}
impl PartialEq for Tr {
    fn eq(&self, o: &Self) -> bool {
        tick();
        self.key == o.key
    }
}
impl Eq for Tr {}
impl PartialOrd for Tr {
    fn partial_cmp(&self, o: &Self) -> Option<Ordering> {
        Some(self.cmp(o))
    }
}
impl Ord for Tr {
    fn cmp(&self, o: &Self) -> Ordering {
        tick();
        self.key.cmp(&o.key)
    }
}
impl std::hash::Hash for Tr {
    fn hash<H: std::hash::Hasher>(&self, h: &mut H) {
        tick();
        self.key.hash(h)
    }
}

// ---------------------------------------------------------------------------------------------
/// Tracked element that owns a heap allocation: the allocator / ASan / Miri also see
/// double frees and reads of moved-out cells.
#[derive(Debug)]
pub struct Bx {
    pub b: Box<(u64, u8)>,
}
impl Elem for Bx {
    const TRACKED: bool = true;
    const ZST: bool = false;
    const NAME: &'static str = "Bx";
    fn mint(key: u8) -> Self {
        Bx { b: Box::new((mint_id(), key)) }
    }
    fn id(&self) -> u64 {
        self.b.0
    }
    fn key(&self) -> u8 {
        self.b.1
    }
}
impl Clone for Bx {
    fn clone(&self) -> Self {
        tick();
        Bx { b: Box::new((mint_id(), self.b.1)) }
    }
}
impl Default for Bx {
    fn default() -> Self {
        tick();
        Bx { b: Box::new((mint_id(), 0)) }
    }
}
impl Drop for Bx {
    fn drop(&mut self) {
        drop_id(self.b.0);
        tick();
    }
}
impl PartialEq for Bx {
    fn eq(&self, o: &Self) -> bool {
        tick();
        self.b.1 == o.b.1
    }
}
impl Eq for Bx {}
impl PartialOrd for Bx {
    fn partial_cmp(&self, o: &Self) -> Option<Ordering> {
        Some(self.cmp(o))
    }
}
impl Ord for Bx {
    fn cmp(&self, o: &Self) -> Ordering {
        tick();
        self.b.1.cmp(&o.b.1)
    }
}
impl std::hash::Hash for Bx {
    fn hash<H: std::hash::Hasher>(&self, h: &mut H) {
        tick();
        self.b.1.hash(h)
    }
}

// ---------------------------------------------------------------------------------------------
/// Zero-sized element with a destructor: only created/dropped counts are meaningful.
#[derive(Debug)]
pub struct Zs;
impl Elem for Zs {
    const TRACKED: bool = false;
    const ZST: bool = true;
    const UNIQUE: bool = false;
    const NAME: &'static str = "Zs";
    fn mint(_key: u8) -> Self {
        with(|l| l.zs_created += 1);
        Zs
    }
    fn id(&self) -> u64 {
        0
    }
    fn key(&self) -> u8 {
        0
    }
}
impl Clone for Zs {
    fn clone(&self) -> Self {
        tick();
        with(|l| l.zs_created += 1);
        Zs
    }
}
impl Default for Zs {
    fn default() -> Self {
        tick();
        with(|l| l.zs_created += 1);
        Zs
    }
}
impl Drop for Zs {
    fn drop(&mut self) {
        with(|l| l.zs_dropped += 1);
        tick();
    }
}
impl PartialEq for Zs {
    fn eq(&self, _: &Self) -> bool {
        tick();
        true
    }
}
impl Eq for Zs {}
impl PartialOrd for Zs {
    fn partial_cmp(&self, o: &Self) -> Option<Ordering> {
        Some(self.cmp(o))
    }
}
impl Ord for Zs {
    fn cmp(&self, _: &Self) -> Ordering {
        tick();
        Ordering::Equal
    }
}
impl std::hash::Hash for Zs {
    fn hash<H: std::hash::Hasher>(&self, _h: &mut H) {
        tick();
    }
}
pub fn zs_counts() -> (u64, u64) {
    with(|l| (l.zs_created, l.zs_dropped))
}

// ---------------------------------------------------------------------------------------------
/// Plain `Copy` values: the id *is* the value (unique per mint), the key is its low byte.
impl Elem for u32 {
    const TRACKED: bool = false;
    const ZST: bool = false;
    const NAME: &'static str = "U32";
    fn mint(key: u8) -> Self {
        let n = with(|l| {
            l.zs_created += 1;
            l.zs_created
        });
        ((n as u32) << 8) | key as u32
    }
    fn id(&self) -> u64 {
        *self as u64
    }
    fn key(&self) -> u8 {
        (*self & 0xff) as u8
    }
    fn ord_key(&self) -> u64 {
        *self as u64
    }
}

// ---------------------------------------------------------------------------------------------
/// `Copy` cell used by the in-place algorithm checks: ordered / compared by `key` only, so
/// ties exist and stability is observable through `id`.
#[derive(Debug, Clone, Copy, Default)]
pub struct Kc {
    pub key: u16,
    pub id: u16,
}
impl Kc {
    pub fn new(key: u16, id: u16) -> Kc {
        Kc { key, id }
    }
    pub fn raw(&self) -> u32 {
        ((self.key as u32) << 16) | self.id as u32
    }
}
impl PartialEq for Kc {
    fn eq(&self, o: &Self) -> bool {
        self.key == o.key
    }
}
impl Eq for Kc {}
impl PartialOrd for Kc {
    fn partial_cmp(&self, o: &Self) -> Option<Ordering> {
        Some(self.cmp(o))
    }
}
impl Ord for Kc {
    fn cmp(&self, o: &Self) -> Ordering {
        self.key.cmp(&o.key)
    }
}

// ---------------------------------------------------------------------------------------------
/// Element types of unusual size / alignment (16 bytes; 3 bytes with alignment 1): plain `Copy`
/// values like `u32`, the id is the value.
impl Elem for u128 {
    const TRACKED: bool = false;
    const ZST: bool = false;
    const NAME: &'static str = "U128";
    fn mint(key: u8) -> Self {
        let n = with(|l| {
            l.zs_created += 1;
            l.zs_created
        });
        ((n as u128) << 8) | key as u128 | (0xA5u128 << 120)
    }
    fn id(&self) -> u64 {
        *self as u64
    }
    fn key(&self) -> u8 {
        (*self & 0xff) as u8
    }
    fn ord_key(&self) -> u64 {
        *self as u64
    }
}

#[derive(Clone, Copy, Default, PartialEq, Eq, PartialOrd, Ord, Hash, Debug)]
pub struct B3(pub [u8; 3]);
impl Elem for B3 {
    const TRACKED: bool = false;
    const ZST: bool = false;
    const NAME: &'static str = "B3";
    fn mint(key: u8) -> Self {
        let n = with(|l| {
            l.zs_created += 1;
            l.zs_created
        });
        let v = (((n as u32) << 2) | (key as u32 & 3)) & 0xff_ffff;
        B3([(v >> 16) as u8, (v >> 8) as u8, v as u8])
    }
    fn id(&self) -> u64 {
        ((self.0[0] as u64) << 16) | ((self.0[1] as u64) << 8) | self.0[2] as u64
    }
    fn key(&self) -> u8 {
        self.0[2] & 3
    }
    fn ord_key(&self) -> u64 {
        self.id()
    }
}

// ---------------------------------------------------------------------------------------------
/// Cell types of the in-place algorithm checks (props/grid.rs).  A cell is made from a model
/// value `raw = key << 16 | id`, is ordered and compared by `key` only, and gives back the part
/// of `raw` it can represent (`make(x).raw()` is the projection the model is compared under).
/// The wide types spread the value over all their bytes and return a poisoned value when their
/// bytes are not consistent, so that a torn or partial copy is visible.
pub trait Cell: Copy + Ord + std::fmt::Debug + 'static {
    const NAME: &'static str;
    fn make(raw: u64) -> Self;
    fn raw(&self) -> u64;
    fn key(&self) -> u16;
    fn set_key(&mut self, k: u16);
}

impl Cell for Kc {
    const NAME: &'static str = "Kc(4 bytes)";
    fn make(raw: u64) -> Kc {
        Kc { key: (raw >> 16) as u16, id: raw as u16 }
    }
    fn raw(&self) -> u64 {
        Kc::raw(self) as u64
    }
    fn key(&self) -> u16 {
        self.key
    }
    fn set_key(&mut self, k: u16) {
        self.key = k
    }
}

const TORN: u64 = 1 << 40;

macro_rules! keyed {
    ($t:ident) => {
        impl PartialEq for $t {
            fn eq(&self, o: &Self) -> bool {
                Cell::key(self) == Cell::key(o)
            }
        }
        impl Eq for $t {}
        impl PartialOrd for $t {
            fn partial_cmp(&self, o: &Self) -> Option<Ordering> {
                Some(self.cmp(o))
            }
        }
        impl Ord for $t {
            fn cmp(&self, o: &Self) -> Ordering {
                Cell::key(self).cmp(&Cell::key(o))
            }
        }
    };
}

/// one byte, no drop glue: 2 bits of key, 6 bits of id
#[derive(Debug, Clone, Copy)]
pub struct K1(pub u8);
keyed!(K1);
impl Cell for K1 {
    const NAME: &'static str = "K1(1 byte)";
    fn make(raw: u64) -> K1 {
        K1(((((raw >> 16) & 3) as u8) << 6) | (raw & 63) as u8)
    }
    fn raw(&self) -> u64 {
        (((self.0 >> 6) as u64) << 16) | (self.0 & 63) as u64
    }
    fn key(&self) -> u16 {
        (self.0 >> 6) as u16
    }
    fn set_key(&mut self, k: u16) {
        self.0 = (self.0 & 63) | (((k & 3) as u8) << 6)
    }
}

/// 20 bytes, alignment 4 (16 bytes or more, not a multiple of 8)
#[derive(Debug, Clone, Copy)]
pub struct K20(pub [u32; 5]);
keyed!(K20);
impl Cell for K20 {
    const NAME: &'static str = "K20(20 bytes)";
    fn make(raw: u64) -> K20 {
        let (k, id) = ((raw >> 16) as u32 & 0xffff, raw as u32 & 0xffff);
        K20([k, id, id ^ 0x5555_5555, id.wrapping_mul(3), id.wrapping_add(0x0101_0101)])
    }
    fn raw(&self) -> u64 {
        let [k, id, a, b, c] = self.0;
        let ok = k <= 0xffff && id <= 0xffff && a == id ^ 0x5555_5555 && b == id.wrapping_mul(3) && c == id.wrapping_add(0x0101_0101);
        ((k as u64) << 16) | id as u64 | if ok { 0 } else { TORN }
    }
    fn key(&self) -> u16 {
        self.0[0] as u16
    }
    fn set_key(&mut self, k: u16) {
        self.0[0] = k as u32
    }
}

/// 4800 bytes (more than a page)
#[derive(Debug, Clone, Copy)]
pub struct Fat(pub [u64; 600]);
keyed!(Fat);
impl Cell for Fat {
    const NAME: &'static str = "Fat(4800 bytes)";
    fn make(raw: u64) -> Fat {
        let mut a = [0u64; 600];
        let id = raw & 0xffff;
        for (i, v) in a.iter_mut().enumerate() {
            *v = id.wrapping_add(i as u64 * 0x1_0001);
        }
        a[0] = raw & 0xffff_ffff;
        Fat(a)
    }
    fn raw(&self) -> u64 {
        let id = self.0[0] & 0xffff;
        let ok = self.0[0] <= 0xffff_ffff && self.0.iter().enumerate().skip(1).all(|(i, v)| *v == id.wrapping_add(i as u64 * 0x1_0001));
        self.0[0] | if ok { 0 } else { TORN }
    }
    fn key(&self) -> u16 {
        (self.0[0] >> 16) as u16
    }
    fn set_key(&mut self, k: u16) {
        self.0[0] = (self.0[0] & 0xffff) | ((k as u64) << 16)
    }
}

// ---------------------------------------------------------------------------------------------
/// An element type WITHOUT drop glue whose Clone / Default / comparisons are caller code (they
/// tick the fuse): `mem::needs_drop` is false for it, yet cloning it can panic.
#[derive(Debug)]
pub struct Nd {
    pub id: u64,
    pub key: u8,
}
fn plain_id() -> u64 {
    with(|l| {
        l.zs_created += 1;
        l.zs_created
    })
}
impl Elem for Nd {
    const TRACKED: bool = false;
    const ZST: bool = false;
    const NAME: &'static str = "Nd";
    fn mint(key: u8) -> Self {
        Nd { id: plain_id(), key }
    }
    fn id(&self) -> u64 {
        self.id
    }
    fn key(&self) -> u8 {
        self.key
    }
}
impl Clone for Nd {
    fn clone(&self) -> Self {
        tick();
        Nd { id: plain_id(), key: self.key }
    }
}
impl Default for Nd {
    fn default() -> Self {
        tick();
        Nd { id: plain_id(), key: 0 }
    }
}
impl PartialEq for Nd {
    fn eq(&self, o: &Self) -> bool {
        tick();
        self.key == o.key
    }
}
impl Eq for Nd {}
impl PartialOrd for Nd {
    fn partial_cmp(&self, o: &Self) -> Option<Ordering> {
        Some(self.cmp(o))
    }
}
impl Ord for Nd {
    fn cmp(&self, o: &Self) -> Ordering {
        tick();
        self.key.cmp(&o.key)
    }
}
impl std::hash::Hash for Nd {
    fn hash<H: std::hash::Hasher>(&self, h: &mut H) {
        tick();
        self.key.hash(h)
    }
}

/// 40 bytes (wider than four machine words), plain `Copy`: the id is spread over all lanes and
/// reads back poisoned when the lanes disagree (a partial copy).
#[derive(Clone, Copy, Default, PartialEq, Eq, PartialOrd, Ord, Hash, Debug)]
pub struct W40(pub [u64; 5]);
impl Elem for W40 {
    const TRACKED: bool = false;
    const ZST: bool = false;
    const NAME: &'static str = "W40";
    fn mint(key: u8) -> Self {
        let v = (plain_id() << 2) | (key as u64 & 3);
        W40([v, !v, v ^ 0x5555, v.wrapping_mul(3), v])
    }
    fn id(&self) -> u64 {
        let [v, a, b, c, d] = self.0;
        if a == !v && b == v ^ 0x5555 && c == v.wrapping_mul(3) && d == v { v } else { v | (1 << 62) }
    }
    fn key(&self) -> u8 {
        (self.0[0] & 3) as u8
    }
    fn ord_key(&self) -> u64 {
        self.0[0]
    }
}

/// 2 bytes: 2 bits of key, 14 bits of id
#[derive(Debug, Clone, Copy)]
pub struct K2(pub u16);
keyed!(K2);
impl Cell for K2 {
    const NAME: &'static str = "K2(2 bytes)";
    fn make(raw: u64) -> K2 {
        K2(((((raw >> 16) & 3) as u16) << 14) | (raw & 0x3fff) as u16)
    }
    fn raw(&self) -> u64 {
        (((self.0 >> 14) as u64) << 16) | (self.0 & 0x3fff) as u64
    }
    fn key(&self) -> u16 {
        self.0 >> 14
    }
    fn set_key(&mut self, k: u16) {
        self.0 = (self.0 & 0x3fff) | ((k & 3) << 14)
    }
}

/// 8 bytes, both halves significant (the upper half is the complement of the lower one)
#[derive(Debug, Clone, Copy)]
pub struct K8(pub u64);
keyed!(K8);
impl Cell for K8 {
    const NAME: &'static str = "K8(8 bytes)";
    fn make(raw: u64) -> K8 {
        let lo = raw & 0xffff_ffff;
        K8(lo | ((!lo & 0xffff_ffff) << 32))
    }
    fn raw(&self) -> u64 {
        let lo = self.0 & 0xffff_ffff;
        lo | if (self.0 >> 32) == (!lo & 0xffff_ffff) { 0 } else { TORN }
    }
    fn key(&self) -> u16 {
        (self.0 >> 16) as u16
    }
    fn set_key(&mut self, k: u16) {
        let lo = (self.0 & 0xffff) | ((k as u64) << 16);
        self.0 = lo | ((!lo & 0xffff_ffff) << 32)
    }
}

/// 16 bytes, alignment 16
#[derive(Debug, Clone, Copy)]
pub struct K16(pub u128);
keyed!(K16);
impl Cell for K16 {
    const NAME: &'static str = "K16(16 bytes)";
    fn make(raw: u64) -> K16 {
        let lo = (raw & 0xffff_ffff) as u128;
        K16(lo | (lo << 40) | ((!lo & 0xffff_ffff) << 96))
    }
    fn raw(&self) -> u64 {
        let lo = self.0 & 0xffff_ffff;
        let ok = self.0 == (lo | (lo << 40) | ((!lo & 0xffff_ffff) << 96));
        lo as u64 | if ok { 0 } else { TORN }
    }
    fn key(&self) -> u16 {
        (self.0 >> 16) as u16
    }
    fn set_key(&mut self, k: u16) {
        let lo = ((self.0 & 0xffff) | ((k as u128) << 16)) & 0xffff_ffff;
        self.0 = lo | (lo << 40) | ((!lo & 0xffff_ffff) << 96)
    }
}
