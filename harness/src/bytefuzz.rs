//! A serde `Deserializer` over a plain byte string: the structured decoder that turns
//! libFuzzer inputs into the harness' case types (all of which derive `Deserialize`).
//! Decoding is *local*: a small mutation of the bytes is a small mutation of the case, so
//! coverage feedback is meaningful.  When the bytes run out everything decodes as zero
//! (first enum variant, empty sequence), which terminates recursive types.
//!
//! (proptest's pass-through RNG cannot serve this purpose: every `prop_oneof!` alternative
//! splits the remaining stream in half for its lazily generated siblings, so a strategy with
//! a 25-way union exhausts any input immediately.)

use serde::de::{self, DeserializeOwned, DeserializeSeed, EnumAccess, IntoDeserializer, SeqAccess, VariantAccess, Visitor};
use std::fmt;

#[derive(Debug)]
pub struct Error(String);
impl fmt::Display for Error {
    fn fmt(&self, f: &mut fmt::Formatter<'_>) -> fmt::Result {
        write!(f, "{}", self.0)
    }
}
impl std::error::Error for Error {}
impl de::Error for Error {
    fn custom<T: fmt::Display>(msg: T) -> Self {
        Error(msg.to_string())
    }
}

const SPECIAL: [u64; 16] = [
    u64::MAX, u64::MAX - 1, u64::MAX / 2, u64::MAX / 2 + 1, 1 << 32, (1 << 32) + 1, 1 << 62, 1 << 63,
    (1 << 63) + 1, u64::MAX / 3 + 1, u64::MAX / 5 + 1, 1 << 31, 1 << 16, 0x5555_5555_5555_5556, 0x3333_3333_3333_3334, (1 << 62) + 1,
];

pub struct De<'a> {
    data: &'a [u8],
    pos: usize,
    depth: u32,
}

impl<'a> De<'a> {
    pub fn new(data: &'a [u8]) -> Self {
        De { data, pos: 0, depth: 0 }
    }
    fn byte(&mut self) -> u8 {
        let b = self.data.get(self.pos).copied().unwrap_or(0);
        self.pos += 1;
        b
    }
    fn raw(&mut self, n: usize) -> u64 {
        let mut v = 0u64;
        for i in 0..n {
            v |= (self.byte() as u64) << (8 * i);
        }
        v
    }
    /// wide integers: mostly small, sometimes a boundary constant, sometimes raw
    fn wide(&mut self) -> u64 {
        let t = self.byte();
        match t >> 6 {
            0 | 1 => (t & 0x7f) as u64 % 48,
            2 => (t & 0x3f) as u64,
            _ => {
                let s = t & 0x3f;
                if s < 16 {
                    SPECIAL[s as usize]
                } else if s < 24 {
                    SPECIAL[(s - 16) as usize].wrapping_add(self.byte() as u64 % 5)
                } else if s < 32 {
                    SPECIAL[(s - 24) as usize].wrapping_sub(self.byte() as u64 % 5)
                } else if s < 48 {
                    self.raw(2)
                } else {
                    self.raw(8)
                }
            }
        }
    }
    fn len(&mut self, cap: usize) -> usize {
        if self.pos >= self.data.len() || self.depth > 24 {
            return 0;
        }
        let b = self.byte() as usize;
        if b <= cap {
            b
        } else {
            b % (cap + 1)
        }
    }
}

pub fn from_bytes<T: DeserializeOwned>(data: &[u8]) -> Option<T> {
    let mut de = De::new(data);
    T::deserialize(&mut de).ok()
}

macro_rules! int {
    ($f:ident, $v:ident, $e:expr) => {
        fn $f<V: Visitor<'de>>(self, visitor: V) -> Result<V::Value, Error> {
            let d = self;
            visitor.$v($e(d))
        }
    };
}

impl<'de, 'a, 'b> de::Deserializer<'de> for &'b mut De<'a> {
    type Error = Error;

    fn deserialize_any<V: Visitor<'de>>(self, _v: V) -> Result<V::Value, Error> {
        Err(Error("deserialize_any is not supported".into()))
    }
    fn deserialize_bool<V: Visitor<'de>>(self, visitor: V) -> Result<V::Value, Error> {
        let b = self.byte();
        visitor.visit_bool(b & 1 == 1)
    }
    int!(deserialize_u8, visit_u8, |d: &mut De<'_>| d.byte());
    int!(deserialize_i8, visit_i8, |d: &mut De<'_>| {
        // small deltas are the interesting ones
        let b = d.byte();
        if b < 0xC0 { (b % 9) as i8 - 4 } else { d.byte() as i8 }
    });
    int!(deserialize_u16, visit_u16, |d: &mut De<'_>| d.raw(2) as u16);
    int!(deserialize_i16, visit_i16, |d: &mut De<'_>| d.raw(2) as i16);
    int!(deserialize_u32, visit_u32, |d: &mut De<'_>| d.raw(4) as u32);
    int!(deserialize_i32, visit_i32, |d: &mut De<'_>| d.raw(4) as i32);
    int!(deserialize_u64, visit_u64, |d: &mut De<'_>| d.wide());
    int!(deserialize_i64, visit_i64, |d: &mut De<'_>| d.wide() as i64);
    fn deserialize_f32<V: Visitor<'de>>(self, visitor: V) -> Result<V::Value, Error> {
        visitor.visit_f32(self.byte() as f32)
    }
    fn deserialize_f64<V: Visitor<'de>>(self, visitor: V) -> Result<V::Value, Error> {
        visitor.visit_f64(self.byte() as f64)
    }
    fn deserialize_char<V: Visitor<'de>>(self, visitor: V) -> Result<V::Value, Error> {
        let c = char::from_u32(self.raw(3) as u32 % 0x11_0000).unwrap_or('\u{fffd}');
        visitor.visit_char(c)
    }
    fn deserialize_str<V: Visitor<'de>>(self, visitor: V) -> Result<V::Value, Error> {
        self.deserialize_string(visitor)
    }
    fn deserialize_string<V: Visitor<'de>>(self, visitor: V) -> Result<V::Value, Error> {
        let n = self.len(24);
        let bytes: Vec<u8> = (0..n).map(|_| self.byte()).collect();
        visitor.visit_string(String::from_utf8_lossy(&bytes).into_owned())
    }
    fn deserialize_bytes<V: Visitor<'de>>(self, visitor: V) -> Result<V::Value, Error> {
        self.deserialize_byte_buf(visitor)
    }
    fn deserialize_byte_buf<V: Visitor<'de>>(self, visitor: V) -> Result<V::Value, Error> {
        let n = self.len(24);
        let bytes: Vec<u8> = (0..n).map(|_| self.byte()).collect();
        visitor.visit_byte_buf(bytes)
    }
    fn deserialize_option<V: Visitor<'de>>(self, visitor: V) -> Result<V::Value, Error> {
        if self.pos < self.data.len() && self.byte() & 1 == 1 {
            visitor.visit_some(self)
        } else {
            visitor.visit_none()
        }
    }
    fn deserialize_unit<V: Visitor<'de>>(self, visitor: V) -> Result<V::Value, Error> {
        visitor.visit_unit()
    }
    fn deserialize_unit_struct<V: Visitor<'de>>(self, _n: &'static str, visitor: V) -> Result<V::Value, Error> {
        visitor.visit_unit()
    }
    fn deserialize_newtype_struct<V: Visitor<'de>>(self, _n: &'static str, visitor: V) -> Result<V::Value, Error> {
        visitor.visit_newtype_struct(self)
    }
    fn deserialize_seq<V: Visitor<'de>>(self, visitor: V) -> Result<V::Value, Error> {
        let n = self.len(48);
        self.depth += 1;
        let r = visitor.visit_seq(Seq { de: &mut *self, left: n });
        self.depth -= 1;
        r
    }
    fn deserialize_tuple<V: Visitor<'de>>(self, len: usize, visitor: V) -> Result<V::Value, Error> {
        visitor.visit_seq(Seq { de: self, left: len })
    }
    fn deserialize_tuple_struct<V: Visitor<'de>>(self, _n: &'static str, len: usize, visitor: V) -> Result<V::Value, Error> {
        visitor.visit_seq(Seq { de: self, left: len })
    }
    fn deserialize_map<V: Visitor<'de>>(self, _visitor: V) -> Result<V::Value, Error> {
        Err(Error("maps are not supported".into()))
    }
    fn deserialize_struct<V: Visitor<'de>>(self, _n: &'static str, fields: &'static [&'static str], visitor: V) -> Result<V::Value, Error> {
        visitor.visit_seq(Seq { de: self, left: fields.len() })
    }
    fn deserialize_enum<V: Visitor<'de>>(self, _n: &'static str, variants: &'static [&'static str], visitor: V) -> Result<V::Value, Error> {
        let idx = if self.pos >= self.data.len() || self.depth > 24 { 0 } else { self.byte() as usize % variants.len().max(1) };
        self.depth += 1;
        let r = visitor.visit_enum(Enum { de: &mut *self, idx: idx as u32 });
        self.depth -= 1;
        r
    }
    fn deserialize_identifier<V: Visitor<'de>>(self, _visitor: V) -> Result<V::Value, Error> {
        Err(Error("identifiers are not supported".into()))
    }
    fn deserialize_ignored_any<V: Visitor<'de>>(self, visitor: V) -> Result<V::Value, Error> {
        visitor.visit_unit()
    }
}

struct Seq<'b, 'a> {
    de: &'b mut De<'a>,
    left: usize,
}
impl<'de, 'a, 'b> SeqAccess<'de> for Seq<'b, 'a> {
    type Error = Error;
    fn next_element_seed<T: DeserializeSeed<'de>>(&mut self, seed: T) -> Result<Option<T::Value>, Error> {
        if self.left == 0 {
            return Ok(None);
        }
        self.left -= 1;
        seed.deserialize(&mut *self.de).map(Some)
    }
    fn size_hint(&self) -> Option<usize> {
        Some(self.left)
    }
}

struct Enum<'b, 'a> {
    de: &'b mut De<'a>,
    idx: u32,
}
impl<'de, 'a, 'b> EnumAccess<'de> for Enum<'b, 'a> {
    type Error = Error;
    type Variant = Self;
    fn variant_seed<V: DeserializeSeed<'de>>(self, seed: V) -> Result<(V::Value, Self), Error> {
        let v = seed.deserialize(IntoDeserializer::<Error>::into_deserializer(self.idx))?;
        Ok((v, self))
    }
}
impl<'de, 'a, 'b> VariantAccess<'de> for Enum<'b, 'a> {
    type Error = Error;
    fn unit_variant(self) -> Result<(), Error> {
        Ok(())
    }
    fn newtype_variant_seed<T: DeserializeSeed<'de>>(self, seed: T) -> Result<T::Value, Error> {
        seed.deserialize(self.de)
    }
    fn tuple_variant<V: Visitor<'de>>(self, len: usize, visitor: V) -> Result<V::Value, Error> {
        visitor.visit_seq(Seq { de: self.de, left: len })
    }
    fn struct_variant<V: Visitor<'de>>(self, fields: &'static [&'static str], visitor: V) -> Result<V::Value, Error> {
        visitor.visit_seq(Seq { de: self.de, left: fields.len() })
    }
}
