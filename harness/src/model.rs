//! Reference models: a plain rows-of-cells array and the ideal double-ended sequence.

use std::collections::VecDeque;

/// Rows of cells (each cell is an opaque u64), normalised so that an empty array is (0,0).
#[derive(Clone, Debug, PartialEq, Eq, Default)]
pub struct Model {
    pub rows: Vec<Vec<u64>>,
}

impl Model {
    pub fn new() -> Model {
        Model { rows: Vec::new() }
    }
    pub fn from_flat(cols: usize, rows: usize, flat: &[u64]) -> Model {
        assert_eq!(cols * rows, flat.len());
        let mut m = Model::new();
        if cols > 0 {
            for r in 0..rows {
                m.rows.push(flat[r * cols..(r + 1) * cols].to_vec());
            }
        }
        m
    }
    pub fn num_rows(&self) -> usize {
        self.rows.len()
    }
    pub fn num_cols(&self) -> usize {
        self.rows.first().map_or(0, |r| r.len())
    }
    pub fn size(&self) -> (usize, usize) {
        (self.num_cols(), self.num_rows())
    }
    pub fn len(&self) -> usize {
        self.num_cols() * self.num_rows()
    }
    pub fn is_empty(&self) -> bool {
        self.rows.is_empty()
    }
    pub fn flat(&self) -> Vec<u64> {
        self.rows.iter().flatten().copied().collect()
    }
    pub fn get(&self, c: usize, r: usize) -> u64 {
        self.rows[r][c]
    }
    pub fn set(&mut self, c: usize, r: usize, v: u64) {
        self.rows[r][c] = v;
    }
    pub fn col(&self, c: usize) -> Vec<u64> {
        self.rows.iter().map(|r| r[c]).collect()
    }
    fn normalise(&mut self) {
        if self.rows.iter().all(|r| r.is_empty()) {
            self.rows.clear();
        }
    }
    /// insert_row accepted?  (index in range and length fits, or the array is empty)
    pub fn can_insert_row(&self, at: usize, len: usize) -> bool {
        at <= self.num_rows() && (self.is_empty() || len == self.num_cols())
    }
    pub fn insert_row(&mut self, at: usize, line: Vec<u64>) {
        if line.is_empty() {
            return;
        }
        self.rows.insert(at, line);
    }
    pub fn can_insert_col(&self, at: usize, len: usize) -> bool {
        at <= self.num_cols() && (self.is_empty() || len == self.num_rows())
    }
    pub fn insert_col(&mut self, at: usize, line: Vec<u64>) {
        if line.is_empty() {
            return;
        }
        if self.is_empty() {
            self.rows = line.into_iter().map(|v| vec![v]).collect();
        } else {
            for (r, v) in self.rows.iter_mut().zip(line) {
                r.insert(at, v);
            }
        }
    }
    pub fn remove_row(&mut self, at: usize) -> Vec<u64> {
        let l = self.rows.remove(at);
        self.normalise();
        l
    }
    pub fn remove_col(&mut self, at: usize) -> Vec<u64> {
        let l = self.rows.iter_mut().map(|r| r.remove(at)).collect();
        self.normalise();
        l
    }
    /// swap_dimensions: the flat data is re-read with the dimensions exchanged
    pub fn swap_dims(&mut self) {
        let (c, r) = self.size();
        let flat = self.flat();
        *self = Model::from_flat(r, c, &flat);
    }
    pub fn swap(&mut self, a: (usize, usize), b: (usize, usize)) {
        let t = self.rows[a.1][a.0];
        self.rows[a.1][a.0] = self.rows[b.1][b.0];
        self.rows[b.1][b.0] = t;
    }
    pub fn swap_cols(&mut self, c1: usize, c2: usize) {
        for r in self.rows.iter_mut() {
            r.swap(c1, c2);
        }
    }
    pub fn translate(&mut self, mc: usize, mr: usize) {
        let (c, r) = self.size();
        if c == 0 {
            return;
        }
        let old = self.clone();
        for y in 0..r {
            for x in 0..c {
                self.rows[y][x] = old.rows[(y + mr) % r][(x + mc) % c];
            }
        }
    }
    pub fn flip_rows(&mut self) {
        self.rows.reverse();
    }
    pub fn flip_cols(&mut self) {
        for r in self.rows.iter_mut() {
            r.reverse();
        }
    }
    /// permute columns: new column j is old column perm[j]
    pub fn permute_cols(&mut self, perm: &[usize]) {
        for r in self.rows.iter_mut() {
            let old = r.clone();
            for (j, &p) in perm.iter().enumerate() {
                r[j] = old[p];
            }
        }
    }
    /// permute rows: new row j is old row perm[j]
    pub fn permute_rows(&mut self, perm: &[usize]) {
        let old = self.rows.clone();
        for (j, &p) in perm.iter().enumerate() {
            self.rows[j] = old[p].clone();
        }
    }
    /// sub-rectangle as its own model
    pub fn window(&self, s: (usize, usize), e: (usize, usize)) -> Model {
        let mut m = Model::new();
        if e.0 > s.0 {
            for r in s.1..e.1 {
                m.rows.push(self.rows[r][s.0..e.0].to_vec());
            }
        }
        m
    }
    /// overwrite the rectangle at `s` with `w`
    pub fn put_window(&mut self, s: (usize, usize), w: &Model) {
        for (r, row) in w.rows.iter().enumerate() {
            for (c, v) in row.iter().enumerate() {
                self.rows[s.1 + r][s.0 + c] = *v;
            }
        }
    }
}

/// Stable sort of `0..keys.len()` by key: the permutation a stable sort must produce.
pub fn stable_perm<K: Ord + Clone>(keys: &[K]) -> Vec<usize> {
    if keys.len() > 512 {
        // long lines: one bucket per distinct key, filled in original order and concatenated in
        // key order -- just as obviously stable, and linear for the small alphabets used
        let mut buckets: std::collections::BTreeMap<K, Vec<usize>> = std::collections::BTreeMap::new();
        for (i, k) in keys.iter().enumerate() {
            buckets.entry(k.clone()).or_default().push(i);
        }
        return buckets.into_values().flatten().collect();
    }
    let mut idx: Vec<usize> = (0..keys.len()).collect();
    // insertion sort: obviously stable, independent of std's sort implementation
    for i in 1..idx.len() {
        let mut j = i;
        while j > 0 && keys[idx[j - 1]] > keys[idx[j]] {
            idx.swap(j - 1, j);
            j -= 1;
        }
    }
    idx
}

/// The textbook double-ended exact-size sequence.
#[derive(Clone, Debug)]
pub struct Ideal<T> {
    pub items: VecDeque<T>,
}
impl<T: Clone> Ideal<T> {
    pub fn new(v: Vec<T>) -> Self {
        Ideal { items: v.into() }
    }
    pub fn len(&self) -> usize {
        self.items.len()
    }
    pub fn next(&mut self) -> Option<T> {
        self.items.pop_front()
    }
    pub fn next_back(&mut self) -> Option<T> {
        self.items.pop_back()
    }
    pub fn nth(&mut self, n: usize) -> Option<T> {
        if n >= self.items.len() {
            self.items.clear();
            None
        } else {
            self.items.drain(..n);
            self.items.pop_front()
        }
    }
    pub fn nth_back(&mut self, n: usize) -> Option<T> {
        if n >= self.items.len() {
            self.items.clear();
            None
        } else {
            let keep = self.items.len() - n;
            self.items.truncate(keep);
            self.items.pop_back()
        }
    }
    pub fn get(&self, i: usize) -> Option<&T> {
        self.items.get(i)
    }
}
