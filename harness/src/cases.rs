//! Serialisable building blocks shared by the case types, and their proptest strategies.
//! Indices are symbolic and resolved at run time against the current state (construction,
//! not rejection); the mapping is monotone so that shrinking moves towards 0.

use proptest::prelude::*;
use serde::{Deserialize, Serialize};

pub const HUGE: [usize; 8] = [usize::MAX, usize::MAX / 2, usize::MAX / 2 + 1, 1 << 32, 1 << 62, usize::MAX - 1, 1 << 63, (1 << 32) + 1];

#[derive(Serialize, Deserialize, Clone, Copy, Debug, PartialEq, Eq, Hash)]
pub enum Ix {
    /// fraction of the length: `frac * len >> 16`, always < len when len > 0
    In(u16),
    Last,
    /// == len (valid insertion point / window end, invalid element index)
    End,
    /// len + 1 + k
    Past(u8),
    Huge(u8),
}

impl Ix {
    pub fn resolve(&self, len: usize) -> usize {
        match *self {
            Ix::In(f) => {
                if len == 0 {
                    0
                } else {
                    ((f as u128 * len as u128) >> 16) as usize
                }
            }
            Ix::Last => len.saturating_sub(1),
            Ix::End => len,
            Ix::Past(k) => len.saturating_add(1 + k as usize),
            Ix::Huge(k) => HUGE[k as usize % HUGE.len()],
        }
    }
}

/// mostly valid element indices
pub fn ix_elem() -> impl Strategy<Value = Ix> {
    prop_oneof![
        70 => any::<u16>().prop_map(Ix::In),
        10 => Just(Ix::Last),
        8 => Just(Ix::End),
        6 => (0u8..3).prop_map(Ix::Past),
        6 => (0u8..8).prop_map(Ix::Huge),
    ]
}
/// mostly valid insertion points / window bounds (End is valid)
pub fn ix_bound() -> impl Strategy<Value = Ix> {
    prop_oneof![
        55 => any::<u16>().prop_map(Ix::In),
        10 => Just(Ix::Last),
        25 => Just(Ix::End),
        5 => (0u8..3).prop_map(Ix::Past),
        5 => (0u8..8).prop_map(Ix::Huge),
    ]
}
/// only in-range
pub fn ix_valid() -> impl Strategy<Value = Ix> {
    prop_oneof![
        80 => any::<u16>().prop_map(Ix::In),
        20 => Just(Ix::Last),
    ]
}
pub fn ix_valid_bound() -> impl Strategy<Value = Ix> {
    prop_oneof![
        60 => any::<u16>().prop_map(Ix::In),
        10 => Just(Ix::Last),
        30 => Just(Ix::End),
    ]
}

/// A rectangle given by symbolic bounds; resolved against a (cols, rows) area.
#[derive(Serialize, Deserialize, Clone, Copy, Debug, PartialEq, Eq, Hash)]
pub struct Win {
    pub x0: Ix,
    pub y0: Ix,
    pub x1: Ix,
    pub y1: Ix,
    /// when false, the resolved bounds are put in order (start <= end)
    pub raw: bool,
}
impl Win {
    pub fn resolve(&self, cols: usize, rows: usize) -> ((usize, usize), (usize, usize)) {
        let mut x0 = self.x0.resolve(cols);
        let mut x1 = self.x1.resolve(cols);
        let mut y0 = self.y0.resolve(rows);
        let mut y1 = self.y1.resolve(rows);
        if !self.raw {
            if x0 > x1 {
                std::mem::swap(&mut x0, &mut x1);
            }
            if y0 > y1 {
                std::mem::swap(&mut y0, &mut y1);
            }
        }
        ((x0, y0), (x1, y1))
    }
    pub fn full() -> Win {
        Win { x0: Ix::In(0), y0: Ix::In(0), x1: Ix::End, y1: Ix::End, raw: false }
    }
}
pub fn win_valid() -> impl Strategy<Value = Win> {
    (ix_valid_bound(), ix_valid_bound(), ix_valid_bound(), ix_valid_bound()).prop_map(|(x0, y0, x1, y1)| Win { x0, y0, x1, y1, raw: false })
}
pub fn win_any() -> impl Strategy<Value = Win> {
    (ix_bound(), ix_bound(), ix_bound(), ix_bound(), prop::bool::weighted(0.15)).prop_map(|(x0, y0, x1, y1, raw)| Win { x0, y0, x1, y1, raw })
}

/// Is `start <= end <= (cols, rows)` componentwise?
pub fn win_is_valid(s: (usize, usize), e: (usize, usize), cols: usize, rows: usize) -> bool {
    s.0 <= e.0 && s.1 <= e.1 && e.0 <= cols && e.1 <= rows
}

#[derive(Serialize, Deserialize, Clone, Copy, Debug, PartialEq, Eq, Hash)]
pub enum ElemKind {
    U32,
    Tr,
    Bx,
    Zs,
    /// 16-byte Copy values
    U128,
    /// 3-byte Copy values with alignment 1
    B3,
    /// no drop glue, but Clone / Default / comparisons are caller code
    Nd,
    /// 40-byte Copy values
    W40,
}

/// Dimension argument of a constructor.
#[derive(Serialize, Deserialize, Clone, Copy, Debug, PartialEq, Eq, Hash)]
pub enum Dim {
    S(u8),
    Huge(u8),
}
impl Dim {
    pub fn get(&self) -> usize {
        match *self {
            Dim::S(k) => k as usize,
            Dim::Huge(k) => HUGE[k as usize % HUGE.len()],
        }
    }
}

/// Would `c * r` overflow, or is exactly one of them zero?
pub fn dims_legal(c: usize, r: usize) -> bool {
    (c == 0) == (r == 0) && c.checked_mul(r).is_some()
}

/// Dimension pairs that are either small, or guaranteed to be *rejected* (so that no
/// constructor is ever asked for a gigantic allocation).
pub fn dim_pair(max: u8) -> impl Strategy<Value = (Dim, Dim)> {
    prop_oneof![
        70 => (0..=max, 0..=max).prop_map(|(a, b)| (Dim::S(a), Dim::S(b))),
        8 => (1..=max).prop_map(|a| (Dim::S(a), Dim::S(0))),
        8 => (1..=max).prop_map(|a| (Dim::S(0), Dim::S(a))),
        5 => (0u8..8, 2..=max.max(2)).prop_map(|(h, b)| (Dim::Huge(h), Dim::S(b))),
        5 => (0u8..8, 2..=max.max(2)).prop_map(|(h, b)| (Dim::S(b), Dim::Huge(h))),
        2 => (0u8..8).prop_map(|h| (Dim::Huge(h), Dim::S(0))),
        2 => (0u8..8).prop_map(|h| (Dim::S(0), Dim::Huge(h))),
        3 => (0u8..8, 0u8..8).prop_map(|(a, b)| (Dim::Huge(a), Dim::Huge(b))),
    ]
    .prop_filter_map("huge dims must be rejected", |(a, b)| {
        let (c, r) = (a.get(), b.get());
        // never let a legal request be larger than a few thousand cells
        if dims_legal(c, r) && c.saturating_mul(r) > 4096 {
            None
        } else {
            Some((a, b))
        }
    })
}
