//! C02 (checked access reaches exactly the addressed cell or panics) and C03 (a view is
//! exactly the requested window of its parent).  Both compare *addresses* against the root
//! buffer, so a wrong stride / offset is visible even when values happen to agree.

use super::grid::{layout, small_margin, Recv, RecvKind};
use super::iters::IRecv;
use crate::runner::*;
use crate::thin::Thin;
use crate::{ensure, fail};
use proptest::prelude::*;
use serde::{Deserialize, Serialize};
use toodee::*;

// ---------------------------------------------------------------------------------------------
// C02

#[derive(Serialize, Deserialize, Clone, Debug, PartialEq)]
pub struct AccessCase {
    pub cols: u8,
    pub rows: u8,
    pub recv: IRecv,
    pub c: u64,
    pub r: u64,
    /// 0 = ordinary case; k > 0: the same coordinates on the k-th giant grid of `()` (crate::giant)
    #[serde(default)]
    pub giant: u8,
}

struct Probe {
    base: usize,
    /// expected address of the cell, None when the coordinate is out of range
    want: Option<usize>,
    c: usize,
    r: usize,
    nc: usize,
    nr: usize,
    row_want: Option<usize>,
}

fn off(p: &Probe, a: usize) -> isize {
    (a as isize - p.base as isize) / 4
}

fn probe_shared<X: TooDeeOps<u32>>(x: &X, p: &Probe, tag: &str) -> Verdict {
    let (c, r) = (p.c, p.r);
    ensure!(x.num_cols() == p.nc && x.num_rows() == p.nr, format!("{}/size", tag), "{}: receiver has size ({},{}) expected ({},{})", tag, x.num_cols(), x.num_rows(), p.nc, p.nr);
    let in_c = c < p.nc;
    let in_r = r < p.nr;
    // x[(c,r)]
    let a = catch(|| &x[(c, r)] as *const u32 as usize);
    check_access(p, a, in_c && in_r, p.want, tag, "x[(col,row)]")?;
    // x[r] and x[r][c]
    let a = catch(|| {
        let row = &x[r];
        (row.as_ptr() as usize, row.len())
    });
    match (a, in_r) {
        (Ok((ptr, len)), true) => {
            ensure!(Some(ptr) == p.row_want && len == p.nc, format!("{}/row-slice", tag), "{}: x[{}] is the slice at offset {} len {}, expected offset {:?} len {}", tag, r, off(p, ptr), len, p.row_want.map(|w| off(p, w)), p.nc);
        }
        (Err(_), false) => {}
        (Ok((ptr, len)), false) => fail!(format!("{}/x[row]/out-of-range-accepted", tag), "{}: x[{}] with {} rows must panic but returned the slice at offset {} len {}", tag, r, p.nr, off(p, ptr), len),
        (Err(m), true) => fail!(format!("{}/x[row]/in-range-panicked", tag), "{}: x[{}] with {} rows panicked: {}", tag, r, p.nr, m),
    }
    let a = catch(|| &x[r][c] as *const u32 as usize);
    check_access(p, a, in_c && in_r, p.want, tag, "x[row][col]")?;
    // x.col(c) and x.col(c)[r]
    let a = catch(|| x.col(c).len());
    match (a, in_c) {
        // (the length of the column iterator is C09's / C01's business, not C02's)
        (Ok(_), true) => {}
        (Err(_), false) => {}
        (Ok(l), false) => fail!(format!("{}/col()/out-of-range-accepted", tag), "{}: col({}) with {} columns must panic but returned an iterator of length {}", tag, c, p.nc, l),
        (Err(m), true) => fail!(format!("{}/col()/in-range-panicked", tag), "{}: col({}) with {} columns panicked: {}", tag, c, p.nc, m),
    }
    let a = catch(|| &x.col(c)[r] as *const u32 as usize);
    check_access(p, a, in_c && in_r, p.want, tag, "x.col(col)[row]")?;
    // unchecked getters: only with valid coordinates
    if let Some(w) = p.want {
        let a = unsafe { x.get_unchecked((c, r)) as *const u32 as usize };
        ensure!(a == w, format!("{}/get_unchecked", tag), "{}: get_unchecked(({},{})) is the cell at offset {}, expected {}", tag, c, r, off(p, a), off(p, w));
        let (ptr, len) = unsafe {
            let row = x.get_unchecked_row(r);
            (row.as_ptr() as usize, row.len())
        };
        ensure!(Some(ptr) == p.row_want && len == p.nc, format!("{}/get_unchecked_row", tag), "{}: get_unchecked_row({}) is the slice at offset {} len {}, expected offset {:?} len {}", tag, r, off(p, ptr), len, p.row_want.map(|w| off(p, w)), p.nc);
    }
    Ok(())
}

fn check_access(p: &Probe, got: Result<usize, String>, in_range: bool, want: Option<usize>, tag: &str, what: &str) -> Verdict {
    match (got, in_range) {
        (Ok(a), true) => {
            ensure!(Some(a) == want, format!("{}/{}/wrong-cell", tag, what), "{}: {} with (col,row)=({},{}) denotes the cell at offset {}, expected offset {:?} [offsets in elements from the root buffer]", tag, what, p.c, p.r, off(p, a), want.map(|w| off(p, w)));
            Ok(())
        }
        (Err(_), false) => Ok(()),
        (Ok(a), false) => fail!(format!("{}/{}/out-of-range-accepted", tag, what), "{}: {} with (col,row)=({},{}) on a {}x{} receiver must panic but reached the cell at offset {}", tag, what, p.c, p.r, p.nc, p.nr, off(p, a)),
        (Err(m), true) => fail!(format!("{}/{}/in-range-panicked", tag, what), "{}: {} with (col,row)=({},{}) on a {}x{} receiver panicked: {}", tag, what, p.c, p.r, p.nc, p.nr, m),
    }
}

fn probe_mut<X: TooDeeOpsMut<u32>>(x: &mut X, p: &Probe, tag: &str, written: &mut Vec<u32>) -> Verdict {
    probe_shared(&*x, p, tag)?;
    let (c, r) = (p.c, p.r);
    let in_c = c < p.nc;
    let in_r = r < p.nr;
    let tagm = format!("{}(mut)", tag);
    let a = catch(|| &mut x[(c, r)] as *mut u32 as usize);
    check_access(p, a, in_c && in_r, p.want, &tagm, "&mut x[(col,row)]")?;
    let a = catch(|| &mut x[r][c] as *mut u32 as usize);
    check_access(p, a, in_c && in_r, p.want, &tagm, "&mut x[row][col]")?;
    let a = catch(|| &mut x.col_mut(c)[r] as *mut u32 as usize);
    check_access(p, a, in_c && in_r, p.want, &tagm, "&mut x.col_mut(col)[row]")?;
    let a = catch(|| x.col_mut(c).len());
    match (a, in_c) {
        (Ok(_), true) => {}
        (Err(_), false) => {}
        (Ok(l), false) => fail!(format!("{}/col_mut()/out-of-range-accepted", tagm), "{}: col_mut({}) with {} columns must panic but returned an iterator of length {}", tagm, c, p.nc, l),
        (Err(m), true) => fail!(format!("{}/col_mut()/in-range-panicked", tagm), "{}: col_mut({}) with {} columns panicked: {}", tagm, c, p.nc, m),
    }
    // writes with out-of-range coordinates must panic (and, checked below, change nothing)
    if !(in_c && in_r) {
        let w = catch(|| x[(c, r)] = 0xDEAD);
        ensure!(w.is_err(), format!("{}/write/out-of-range-accepted", tagm), "{}: x[({},{})] = v on a {}x{} receiver must panic but returned", tagm, c, r, p.nc, p.nr);
        let w = catch(|| x[r][c] = 0xDEAD);
        ensure!(w.is_err(), format!("{}/write-row/out-of-range-accepted", tagm), "{}: x[{}][{}] = v on a {}x{} receiver must panic but returned", tagm, r, c, p.nc, p.nr);
        let w = catch(|| x.col_mut(c)[r] = 0xDEAD);
        ensure!(w.is_err(), format!("{}/write-col/out-of-range-accepted", tagm), "{}: col_mut({})[{}] = v on a {}x{} receiver must panic but returned", tagm, c, r, p.nc, p.nr);
    }
    if let Some(w) = p.want {
        let a = unsafe { x.get_unchecked_mut((c, r)) as *mut u32 as usize };
        ensure!(a == w, format!("{}/get_unchecked_mut", tagm), "{}: get_unchecked_mut(({},{})) is the cell at offset {}, expected {}", tagm, c, r, off(p, a), off(p, w));
        let ptr = unsafe { x.get_unchecked_row_mut(r).as_mut_ptr() as usize };
        ensure!(Some(ptr) == p.row_want, format!("{}/get_unchecked_row_mut", tagm), "{}: get_unchecked_row_mut({}) starts at offset {}", tagm, r, off(p, ptr));
        // write through each mutable accessor, read back through the others
        x[(c, r)] = 0x1001;
        ensure!(x[r][c] == 0x1001 && x.col(c)[r] == 0x1001, format!("{}/write-readback-1", tagm), "{}: value written through x[(col,row)] is not read back through x[row][col] / col(col)[row]", tagm);
        x[r][c] = 0x1002;
        ensure!(x[(c, r)] == 0x1002, format!("{}/write-readback-2", tagm), "{}: value written through x[row][col] is not read back through x[(col,row)]", tagm);
        x.col_mut(c)[r] = 0x1003;
        ensure!(x[(c, r)] == 0x1003, format!("{}/write-readback-3", tagm), "{}: value written through col_mut(col)[row] is not read back", tagm);
        unsafe {
            *x.get_unchecked_mut((c, r)) = 0x1004;
        }
        ensure!(x[(c, r)] == 0x1004, format!("{}/write-readback-4", tagm), "{}: value written through get_unchecked_mut is not read back", tagm);
        unsafe {
            x.get_unchecked_row_mut(r)[c] = 0x1005;
        }
        ensure!(x[(c, r)] == 0x1005 && unsafe { *x.get_unchecked((c, r)) } == 0x1005, format!("{}/write-readback-5", tagm), "{}: value written through get_unchecked_row_mut is not read back", tagm);
        written.push(0x1005);
    }
    Ok(())
}

fn zst_go_shared<X: TooDeeOps<()>>(x: &X, c: usize, r: usize, who: &str) -> Verdict {
    let (nc, nr) = (x.num_cols(), x.num_rows());
    let (in_c, in_r) = (c < nc, r < nr);
    let chk = |res: Result<(), String>, ok: bool, what: &str| -> Verdict {
        ensure!(res.is_ok() == ok, format!("zst/{}/{}", who, what), "{} with (col,row)=({},{}) on a {}x{} {} of a zero-sized element type: {} but should {}{}", what, c, r, nc, nr, who, if res.is_ok() { "returned" } else { "panicked" }, if ok { "return" } else { "panic" }, res.as_ref().err().map(|m| format!(" [{}]", m)).unwrap_or_default());
        Ok(())
    };
    chk(catch(|| { let _ = &x[(c, r)]; }), in_c && in_r, "x[(col,row)]")?;
    chk(catch(|| { let _ = x[r].len(); }), in_r, "x[row]")?;
    chk(catch(|| { let _ = &x[r][c]; }), in_c && in_r, "x[row][col]")?;
    chk(catch(|| { let _ = x.col(c).len(); }), in_c, "col(col)")?;
    chk(catch(|| { let _ = &x.col(c)[r]; }), in_c && in_r, "col(col)[row]")?;
    if in_r {
        ensure!(x[r].len() == nc, format!("zst/{}/row-len", who), "x[{}] has length {} on a {}x{} {} of a zero-sized element type", r, x[r].len(), nc, nr, who);
    }
    Ok(())
}

fn zst_go<X: TooDeeOpsMut<()>>(x: &mut X, c: usize, r: usize, who: &str) -> Verdict {
    zst_go_shared(&*x, c, r, who)?;
    let (nc, nr) = (x.num_cols(), x.num_rows());
    let (in_c, in_r) = (c < nc, r < nr);
    let chk = |res: Result<(), String>, ok: bool, what: &str| -> Verdict {
        ensure!(res.is_ok() == ok, format!("zst/{}/{}", who, what), "{} with (col,row)=({},{}) on a {}x{} {} of a zero-sized element type: {} but should {}{}", what, c, r, nc, nr, who, if res.is_ok() { "returned" } else { "panicked" }, if ok { "return" } else { "panic" }, res.as_ref().err().map(|m| format!(" [{}]", m)).unwrap_or_default());
        Ok(())
    };
    chk(catch(|| { x[(c, r)] = (); }), in_c && in_r, "x[(col,row)] = v")?;
    chk(catch(|| { x[r][c] = (); }), in_c && in_r, "x[row][col] = v")?;
    chk(catch(|| { let _ = x.col_mut(c).len(); }), in_c, "col_mut(col)")?;
    chk(catch(|| { x.col_mut(c)[r] = (); }), in_c && in_r, "col_mut(col)[row] = v")?;
    Ok(())
}

/// The same coordinate on an array and a window of a zero-sized element type: every checked
/// accessor must panic exactly when the coordinate is out of range.
fn zst_access(cols: usize, rows: usize, c: usize, r: usize) -> Verdict {
    let mut z: TooDee<()> = if cols == 0 || rows == 0 { TooDee::default() } else { TooDee::init(cols, rows, ()) };
    zst_go(&mut z, c, r, "array")?;
    if cols > 0 && rows > 0 {
        let mut big: TooDee<()> = TooDee::init(cols + 2, rows + 2, ());
        zst_go(&mut big.view_mut((1, 1), (cols + 1, rows + 1)), c, r, "mutable view")?;
    }
    Ok(())
}

/// window of a giant grid: margins are clamped so that the window is never empty
pub fn giant_window(gc: usize, gr: usize, m: [u8; 4]) -> ((usize, usize), (usize, usize)) {
    let s = ((m[0] as usize).min(gc - 1), (m[1] as usize).min(gr - 1));
    let e = ((gc - (m[2] as usize).min(gc)).max(s.0 + 1), (gr - (m[3] as usize).min(gr)).max(s.1 + 1));
    (s, e)
}

/// The coordinate on the k-th giant grid of `()` (cell counts next to usize::MAX): the index
/// arithmetic must neither overflow for in-range coordinates nor wrap back into range for
/// out-of-range ones.
fn giant_access(k: &AccessCase, ctx: &mut Ctx) -> Verdict {
    let (gc, gr) = crate::giant::shape(k.giant);
    let (c, r) = (k.c as usize, k.r as usize);
    let mut z = crate::giant::owned(gc, gr);
    let tag;
    match k.recv {
        IRecv::M(rv) => match rv.kind {
            RecvKind::Owned => {
                tag = "giant/owned";
                zst_go(&mut z, c, r, "giant array")?;
            }
            RecvKind::Thin => {
                tag = "giant/third-party";
                zst_go(&mut Thin::new(&mut z), c, r, "giant third-party wrapper")?;
            }
            RecvKind::SliceMut => {
                tag = "giant/view_mut over slice";
                zst_go(&mut TooDeeViewMut::new(gc, gr, z.data_mut()), c, r, "giant view_mut over a slice")?;
            }
            RecvKind::ViewMut | RecvKind::ThinView => {
                tag = "giant/view_mut";
                let (s, e) = giant_window(gc, gr, rv.m);
                zst_go(&mut z.view_mut(s, e), c, r, "giant mutable view")?;
            }
            RecvKind::Nested => {
                tag = "giant/nested view_mut";
                let (s, e) = giant_window(gc, gr, rv.m);
                let mut v1 = z.view_mut(s, e);
                let (c1, r1) = v1.size();
                let (s2, e2) = giant_window(c1, r1, rv.m2);
                zst_go(&mut v1.view_mut(s2, e2), c, r, "giant nested mutable view")?;
            }
        },
        IRecv::View(m) => {
            tag = "giant/view";
            let (s, e) = giant_window(gc, gr, m);
            zst_go_shared(&z.view(s, e), c, r, "giant view")?;
        }
        IRecv::NestedView(m, m2) | IRecv::ViewOfViewMut(m, m2) => {
            tag = "giant/nested view";
            let (s, e) = giant_window(gc, gr, m);
            let v1 = z.view(s, e);
            let (c1, r1) = v1.size();
            let (s2, e2) = giant_window(c1, r1, m2);
            zst_go_shared(&v1.view(s2, e2), c, r, "giant nested view")?;
        }
        IRecv::Slice(slack) => {
            tag = "giant/view over slice";
            let n = (gc * gr).saturating_add(slack as usize);
            zst_go_shared(&TooDeeView::new(gc, gr, &crate::giant::UNITS[..n]), c, r, "giant view over a slice")?;
        }
    }
    ctx.nt();
    ctx.class("giant-unit-grid");
    ctx.class(tag);
    ctx.class(if c < gc && r < gr { "giant/coord-in-range" } else { "giant/coord-out-of-range" });
    Ok(())
}

pub fn exec_access(k: &AccessCase, ctx: &mut Ctx) -> Verdict {
    if k.giant > 0 {
        return giant_access(k, ctx);
    }
    if k.cols <= 6 && k.rows <= 6 && (k.c.wrapping_add(k.r)) % 3 == 0 {
        zst_access(k.cols as usize, k.rows as usize, k.c as usize, k.r as usize)?;
        ctx.class("zero-sized-companion");
    }
    let (cols, rows) = (k.cols as usize, k.rows as usize);
    let (lay, mkind, shared_kind): (_, Option<RecvKind>, u8) = match k.recv {
        IRecv::M(rv) => (layout(cols, rows, &rv), Some(rv.kind), 0),
        IRecv::View(m) => (layout(cols, rows, &Recv::view(m)), None, 1),
        IRecv::NestedView(m, m2) => (layout(cols, rows, &Recv::nested(m, m2)), None, 2),
        IRecv::ViewOfViewMut(m, m2) => (layout(cols, rows, &Recv::nested(m, m2)), None, 3),
        IRecv::Slice(_) => (layout(cols, rows, &Recv::owned()), None, 4),
    };
    let slack = if let IRecv::Slice(s) = k.recv { s as usize } else { 0 };
    let n = lay.pc * lay.pr;
    let vals: Vec<u32> = (0..(n + slack) as u32).map(|i| i * 5 + 11).collect();
    let mut buf = vals.clone();
    let mut parent = if shared_kind == 4 { TooDee::default() } else { TooDee::from_vec(lay.pc, lay.pr, vals[..n].to_vec()) };
    let base = if shared_kind == 4 { buf.as_ptr() as usize } else { parent.data().as_ptr() as usize };
    let (c, r) = (k.c as usize, k.r as usize);
    let in_range = c < lay.c && r < lay.r;
    let cell = |x: usize, y: usize| base + ((lay.o.1 + y) * lay.pc + lay.o.0 + x) * 4;
    let p = Probe { base, want: if in_range { Some(cell(c, r)) } else { None }, c, r, nc: lay.c, nr: lay.r, row_want: if r < lay.r { Some(cell(0, r)) } else { None } };
    let mut written = Vec::new();
    let tag;
    match (mkind, shared_kind) {
        (Some(RecvKind::Owned), _) => {
            tag = "owned";
            probe_mut(&mut parent, &p, tag, &mut written)?;
            if in_range {
                // the owned array's cell is data()[row*num_cols+col]
                ensure!(parent.data()[r * lay.c + c] == 0x1005, "owned/data-index", "owned: data()[row*num_cols+col] is not the cell written through the accessors");
            }
        }
        (Some(RecvKind::Thin), _) => {
            tag = "third-party";
            probe_mut(&mut Thin::new(&mut parent), &p, tag, &mut written)?;
        }
        (Some(RecvKind::ViewMut), _) => {
            tag = "view_mut";
            probe_mut(&mut parent.view_mut(lay.s1, lay.e1), &p, tag, &mut written)?;
        }
        (Some(RecvKind::ThinView), _) => {
            tag = "third-party(view_mut)";
            let mut v = parent.view_mut(lay.s1, lay.e1);
            probe_mut(&mut Thin::new(&mut v), &p, tag, &mut written)?;
        }
        (Some(RecvKind::SliceMut), _) => {
            tag = "view_mut over slice";
            let mut v = TooDeeViewMut::new(lay.c, lay.r, parent.data_mut());
            probe_mut(&mut v, &p, tag, &mut written)?;
        }
        (Some(RecvKind::Nested), _) => {
            tag = "nested view_mut";
            let mut v1 = parent.view_mut(lay.s1, lay.e1);
            let mut v2 = v1.view_mut(lay.s2, lay.e2);
            probe_mut(&mut v2, &p, tag, &mut written)?;
        }
        (None, 1) => {
            tag = "view";
            probe_shared(&parent.view(lay.s1, lay.e1), &p, tag)?;
            // an explicit clone of a view (and a copy) denotes the same cells
            #[allow(clippy::clone_on_copy)]
            let cl = parent.view(lay.s1, lay.e1).clone();
            probe_shared(&cl, &p, "view.clone()")?;
            let v = parent.view(lay.s1, lay.e1);
            let cp = v;
            probe_shared(&cp, &p, "copy of view")?;
        }
        (None, 2) => {
            tag = "nested view";
            let v1 = parent.view(lay.s1, lay.e1);
            probe_shared(&v1.view(lay.s2, lay.e2), &p, tag)?;
            #[allow(clippy::clone_on_copy)]
            let cl = v1.clone();
            probe_shared(&cl.view(lay.s2, lay.e2).clone(), &p, "nested view.clone()")?;
        }
        (None, 3) => {
            tag = "view of view_mut";
            let v1 = parent.view_mut(lay.s1, lay.e1);
            probe_shared(&v1.view(lay.s2, lay.e2), &p, tag)?;
            probe_shared(&v1.view(lay.s2, lay.e2).clone(), &p, "view of view_mut .clone()")?;
            // From<TooDeeViewMut> for TooDeeView keeps the window
            let v1 = parent.view_mut(lay.s1, lay.e1);
            let sh: TooDeeView<'_, u32> = v1.into();
            probe_shared(&sh.view(lay.s2, lay.e2), &p, "TooDeeView::from(view_mut)")?;
        }
        _ => {
            tag = "view over slice";
            {
                let v = TooDeeView::new(lay.c, lay.r, &buf[..]);
                probe_shared(&v, &p, tag)?;
                probe_shared(&v.clone(), &p, "view over slice .clone()")?;
            }
            let mut v = TooDeeViewMut::new(lay.c, lay.r, &mut buf[..]);
            probe_mut(&mut v, &p, "view_mut over slice", &mut written)?;
        }
    }
    // exactly one root cell changed (in range) / nothing changed (out of range)
    let after: &[u32] = if shared_kind == 4 { &buf } else { parent.data() };
    let mut want = vals.clone();
    want.truncate(after.len());
    if !written.is_empty() {
        want[(p.want.unwrap() - base) / 4] = 0x1005;
    }
    if after != &want[..] {
        let i = (0..after.len()).find(|&i| after[i] != want[i]).unwrap();
        fail!(format!("{}/root-cells-changed", tag), "{}: access with (col,row)=({},{}) on a {}x{} receiver: root cell {} is {:#x} but should be {:#x} ({})", tag, c, r, lay.c, lay.r, i, after[i], want[i], if in_range { "exactly the addressed cell may change" } else { "an out-of-range access must not write anything" });
    }
    ctx.class(tag);
    ctx.nt();
    let stride = lay.pc.max(1) as u128;
    let wraps = |v: usize, s: u128| v as u128 * s >= (1u128 << 64);
    ctx.class(if in_range {
        "coord-in-range"
    } else if (c == lay.c && r <= lay.r) || (r == lay.r && c <= lay.c) {
        "coord-equals-dim"
    } else if wraps(r, stride) || wraps(c, stride) {
        "coord-wrapping-the-stride-product"
    } else if c > 1 << 20 || r > 1 << 20 {
        "coord-huge"
    } else {
        "coord-past-dim"
    });
    Ok(())
}

/// (window cols, window rows, stride) of the receiver `recv` on the g-th giant grid
pub fn giant_dims(g: u8, recv: &IRecv) -> (usize, usize, usize) {
    let (gc, gr) = crate::giant::shape(g);
    let win = |c: usize, r: usize, m: [u8; 4]| {
        let (s, e) = giant_window(c, r, m);
        (e.0 - s.0, e.1 - s.1)
    };
    let (wc, wr) = match *recv {
        IRecv::M(rv) => match rv.kind {
            RecvKind::Owned | RecvKind::Thin | RecvKind::SliceMut => (gc, gr),
            RecvKind::ViewMut | RecvKind::ThinView => win(gc, gr, rv.m),
            RecvKind::Nested => {
                let (c1, r1) = win(gc, gr, rv.m);
                win(c1, r1, rv.m2)
            }
        },
        IRecv::View(m) => win(gc, gr, m),
        IRecv::NestedView(m, m2) | IRecv::ViewOfViewMut(m, m2) => {
            let (c1, r1) = win(gc, gr, m);
            win(c1, r1, m2)
        }
        IRecv::Slice(_) => (gc, gr),
    };
    (wc, wr, gc)
}

fn coord_values(dim: usize, stride: usize, rows: usize) -> Vec<u64> {
    let mut v: Vec<u64> = (0..=dim as u64 + 1).collect();
    v.extend([u64::MAX, u64::MAX / 2, u64::MAX / 2 + 1, 1 << 32, 1 << 62, 1 << 63]);
    for s in [stride.max(1), (stride * rows).max(1), (stride + 1)] {
        let q = ((1u128 << 64) + s as u128 - 1) / s as u128;
        for j in 1..=2u128 {
            for d in 0..=1u128 {
                v.push(((q * j + d) & u64::MAX as u128) as u64);
            }
        }
    }
    v.sort();
    v.dedup();
    v
}

pub struct C02;
impl Prop for C02 {
    type Case = AccessCase;
    const ID: &'static str = "C02";
    fn rule() -> &'static str {
        "exhaustive over shapes (0..=5)^2 x receivers {owned, view_mut windows (interior, edge-touching), nested view_mut, third-party wrapper, shared view, nested shared view, view of view_mut, views over a plain slice} x coordinates from {0..dim+1} + {usize::MAX, usize::MAX/2, usize::MAX/2+1, 2^32, 2^62, 2^63} + {ceil(2^64/s)*j+d for s in {stride, stride*rows, stride+1}} (the values whose stride product wraps back into range), plus random shapes up to 40. In range: the addresses of x[(c,r)], x[r][c], x.col(c)[r], get_unchecked, get_unchecked_row[c] and all their mutable forms are equal to the root-buffer address of the cell (owned: data()[r*num_cols+c]); writes through each mutable accessor are read back through the others and change exactly one root cell. Out of range: every checked accessor must panic and the root buffer is unchanged. Debug and overflow-unchecked release builds. Every case is non-trivial (identity or panic is checked); distinct = distinct (receiver, shape, coordinate). Also: giant grids of () with ~usize::MAX cells (20 shapes x 6 receivers x ~20 coordinates per axis, only panic / no panic observable), and view.clone(), a copy of the view and TooDeeView::from(view_mut) probed like the view itself."
    }
    fn bound(_t: Tier) -> String {
        "shapes (0..=5)^2, 10 receiver embeddings, ~25 coordinate values per axis incl. wrap-provoking ones".into()
    }
    fn enumerate(_tier: Tier, emit: &mut dyn FnMut(AccessCase)) {
        let recvs = vec![
            IRecv::M(Recv::owned()), IRecv::M(Recv::view([1, 1, 1, 1])), IRecv::M(Recv::view([0, 0, 2, 0])), IRecv::M(Recv::view([2, 1, 0, 0])),
            IRecv::M(Recv::nested([1, 0, 1, 1], [0, 1, 1, 0])), IRecv::M(Recv::thin()), IRecv::M(Recv::thin_view([1, 1, 0, 1])),
            IRecv::View([1, 2, 1, 0]), IRecv::NestedView([1, 1, 0, 0], [1, 0, 1, 1]), IRecv::ViewOfViewMut([0, 1, 1, 0], [1, 0, 0, 1]), IRecv::Slice(3),
        ];
        for recv in recvs {
            for cols in 0u8..=5 {
                for rows in 0u8..=5 {
                    if (cols == 0) != (rows == 0) {
                        continue;
                    }
                    let lay = match recv {
                        IRecv::M(rv) => layout(cols as usize, rows as usize, &rv),
                        IRecv::View(m) => layout(cols as usize, rows as usize, &Recv::view(m)),
                        IRecv::NestedView(m, m2) | IRecv::ViewOfViewMut(m, m2) => layout(cols as usize, rows as usize, &Recv::nested(m, m2)),
                        IRecv::Slice(_) => layout(cols as usize, rows as usize, &Recv::owned()),
                    };
                    for c in coord_values(lay.c, lay.pc, lay.r) {
                        for r in coord_values(lay.r, lay.pc, lay.r) {
                            emit(AccessCase { cols, rows, recv, c, r, giant: 0 });
                        }
                    }
                }
            }
        }
        // giant grids of `()`: 20 shapes x 6 receivers x ~20 coordinates per axis
        for g in 1..=crate::giant::SHAPES.len() as u8 {
            for recv in [IRecv::M(Recv::owned()), IRecv::M(Recv::view([1, 1, 1, 1])), IRecv::M(Recv::view([0, 2, 0, 0])), IRecv::View([2, 0, 1, 1]), IRecv::NestedView([1, 1, 0, 0], [1, 0, 1, 1]), IRecv::Slice(2)] {
                let (wc, wr, stride) = giant_dims(g, &recv);
                for c in crate::giant::coords(wc, stride) {
                    for r in crate::giant::coords(wr, stride) {
                        emit(AccessCase { cols: 0, rows: 0, recv, c, r, giant: g });
                    }
                }
            }
        }
    }
    fn strategy(_t: Tier) -> BoxedStrategy<AccessCase> {
        let recv = prop_oneof![
            2 => Just(IRecv::M(Recv::owned())),
            1 => Just(IRecv::M(Recv::thin())),
            3 => small_margin().prop_map(|m| IRecv::M(Recv::view(m))),
            1 => small_margin().prop_map(|m| IRecv::M(Recv::thin_view(m))),
            2 => (small_margin(), small_margin()).prop_map(|(a, b)| IRecv::M(Recv::nested(a, b))),
            2 => small_margin().prop_map(IRecv::View),
            1 => (small_margin(), small_margin()).prop_map(|(a, b)| IRecv::NestedView(a, b)),
            1 => (small_margin(), small_margin()).prop_map(|(a, b)| IRecv::ViewOfViewMut(a, b)),
            1 => (0u8..9).prop_map(IRecv::Slice),
        ];
        let coord = |dim: u8| {
            let d = dim as u64;
            prop_oneof![
                60 => 0..=d.max(1) - 1,
                8 => Just(d),
                5 => Just(d + 1),
                10 => any::<u64>(),
                5 => (0u32..64).prop_map(|s| 1u64 << s),
                5 => (0u32..64, 0u64..3).prop_map(|(s, e)| (u64::MAX >> s).wrapping_add(e)),
                7 => (1u64..48, 1u64..4, 0u64..2).prop_map(|(s, j, e)| ((((1u128 << 64) + s as u128 - 1) / s as u128 * j as u128 + e as u128) & u64::MAX as u128) as u64),
            ]
        };
        let small = (0u8..=40, 0u8..=40, recv.clone())
            .prop_flat_map(move |(cols, rows, recv)| {
                let (cols, rows) = if cols == 0 || rows == 0 { (0, 0) } else { (cols, rows) };
                (coord(cols), coord(rows)).prop_map(move |(c, r)| AccessCase { cols, rows, recv, c, r, giant: 0 })
            });
        let giant = (1u8..=crate::giant::SHAPES.len() as u8, recv, any::<u8>(), any::<u8>()).prop_map(|(g, recv, ci, ri)| {
            let (wc, wr, stride) = giant_dims(g, &recv);
            AccessCase { cols: 0, rows: 0, recv, c: crate::giant::coord(wc, stride, ci), r: crate::giant::coord(wr, stride, ri), giant: g }
        });
        prop_oneof![24 => small, 1 => giant].boxed()
    }
    fn fuzz_sanitize(k: &mut AccessCase) -> bool {
        k.cols %= 9;
        k.rows %= 9;
        // one input in eight addresses a giant grid
        k.giant = if k.giant < 224 { 0 } else { k.giant - 223 };
        let fix = |m: &mut [u8; 4]| m.iter_mut().for_each(|x| *x %= 4);
        match &mut k.recv {
            IRecv::M(rv) => {
                fix(&mut rv.m);
                fix(&mut rv.m2);
            }
            IRecv::View(m) => fix(m),
            IRecv::NestedView(a, b) | IRecv::ViewOfViewMut(a, b) => {
                fix(a);
                fix(b);
            }
            IRecv::Slice(s) => *s %= 9,
        }
        true
    }
    fn random_cases(tier: Tier) -> u64 {
        if tier == Tier::Quick { 500_000 } else { 8_000_000 }
    }
    fn execute(k: &AccessCase, ctx: &mut Ctx) -> Verdict {
        exec_access(k, ctx)
    }
    fn essential_classes() -> &'static [&'static str] {
        &["coord-in-range", "coord-equals-dim", "coord-past-dim", "coord-huge", "coord-wrapping-the-stride-product", "owned", "view", "view_mut", "nested view_mut", "third-party", "view over slice", "giant-unit-grid", "giant/coord-in-range", "giant/coord-out-of-range", "giant/owned", "giant/view", "giant/view_mut"]
    }
}

// ---------------------------------------------------------------------------------------------
// C03

#[derive(Serialize, Deserialize, Clone, Copy, Debug, PartialEq, Eq)]
pub enum Root {
    Owned,
    /// `TooDeeView::new(c, r, &slice)` with `slack` extra elements
    SliceView(u8),
    SliceViewMut(u8),
    Thin,
}

#[derive(Serialize, Deserialize, Clone, Copy, Debug, PartialEq, Eq)]
pub struct Level {
    pub mutable: bool,
    /// [x0, y0, x1, y1] = view((x0,y0),(x1,y1)) on the previous level
    pub win: [u64; 4],
}

#[derive(Serialize, Deserialize, Clone, Debug, PartialEq)]
pub struct WindowCase {
    pub cols: u8,
    pub rows: u8,
    pub root: Root,
    pub chain: Vec<Level>,
    /// 0 = ordinary case; k > 0: the chain is applied to the k-th giant grid of `()`
    #[serde(default)]
    pub giant: u8,
}

struct Walk<'a> {
    base: usize,
    pc: usize,
    /// model of the root buffer
    want: &'a mut Vec<u32>,
    next: u32,
    depth: usize,
    interior: bool,
    zero_extent_far: bool,
    rejected: bool,
}

fn window_valid(w: [u64; 4], c: usize, r: usize) -> bool {
    w[0] <= w[2] && w[1] <= w[3] && w[2] <= c as u64 && w[3] <= r as u64
}

fn check_view<V: TooDeeOps<u32>>(v: &V, w: [u64; 4], o: (usize, usize), wk: &mut Walk<'_>, what: &str) -> Result<(usize, usize), Failure> {
    let (x0, y0, x1, y1) = (w[0] as usize, w[1] as usize, w[2] as usize, w[3] as usize);
    let (mut ec, mut er) = (x1 - x0, y1 - y0);
    if ec == 0 || er == 0 {
        ec = 0;
        er = 0;
    }
    ensure!(v.size() == (ec, er), format!("{}/size", what), "{}: window ({},{})..({},{}) has size {:?}, expected ({},{})", what, x0, y0, x1, y1, v.size(), ec, er);
    ensure!(v.num_cols() == ec && v.num_rows() == er && v.is_empty() == (ec == 0), format!("{}/size-accessors", what), "{}: num_cols/num_rows/is_empty disagree with size()", what);
    let addr = |c: usize, r: usize| wk.base + ((o.1 + y0 + r) * wk.pc + o.0 + x0 + c) * 4;
    for r in 0..er {
        for c in 0..ec {
            let a = &v[(c, r)] as *const u32 as usize;
            ensure!(a == addr(c, r), format!("{}/cell", what), "{}: window ({},{})..({},{}): cell ({},{}) is the root cell at offset {}, expected the parent's cell ({},{}) at offset {}", what, x0, y0, x1, y1, c, r, (a as isize - wk.base as isize) / 4, x0 + c, y0 + r, (addr(c, r) - wk.base) / 4);
        }
    }
    Ok((o.0 + x0, o.1 + y0))
}

fn walk_shared<X: TooDeeOps<u32>>(x: &X, chain: &[Level], o: (usize, usize), wk: &mut Walk<'_>) -> Verdict {
    let Some(lv) = chain.first() else { return Ok(()) };
    let (c, r) = x.size();
    let w = lv.win;
    let valid = window_valid(w, c, r);
    wk.depth += 1;
    let what = format!("level {} view", wk.depth);
    let res = catch(|| x.view((w[0] as usize, w[1] as usize), (w[2] as usize, w[3] as usize)));
    match (res, valid) {
        (Err(_), false) => {
            wk.rejected = true;
            Ok(())
        }
        (Ok(v), false) => fail!(format!("{}/invalid-accepted", what), "{}: view(({},{}),({},{})) on a {}x{} receiver must panic but returned a view of size {:?}", what, w[0], w[1], w[2], w[3], c, r, v.size()),
        (Err(m), true) => fail!(format!("{}/valid-panicked", what), "{}: view(({},{}),({},{})) on a {}x{} receiver is valid but panicked: {}", what, w[0], w[1], w[2], w[3], c, r, m),
        (Ok(v), true) => {
            note_classes(w, c, r, wk);
            let o2 = check_view(&v, w, o, wk, &what)?;
            walk_shared(&v, &chain[1..], o2, wk)
        }
    }
}

fn note_classes(w: [u64; 4], c: usize, r: usize, wk: &mut Walk<'_>) {
    let (ec, er) = (w[2] - w[0], w[3] - w[1]);
    if (ec as usize) < c || (er as usize) < r {
        wk.interior = true;
    }
    if (ec == 0 || er == 0) && (w[0] as usize == c || w[1] as usize == r) && c > 0 {
        wk.zero_extent_far = true;
    }
}

fn walk_mut<X: TooDeeOpsMut<u32>>(x: &mut X, chain: &[Level], o: (usize, usize), wk: &mut Walk<'_>) -> Verdict {
    let Some(lv) = chain.first() else { return Ok(()) };
    if !lv.mutable {
        return walk_shared(&*x, chain, o, wk);
    }
    let (c, r) = x.size();
    let w = lv.win;
    let valid = window_valid(w, c, r);
    wk.depth += 1;
    let what = format!("level {} view_mut", wk.depth);
    let res = catch(|| x.view_mut((w[0] as usize, w[1] as usize), (w[2] as usize, w[3] as usize)));
    match (res, valid) {
        (Err(_), false) => {
            wk.rejected = true;
            Ok(())
        }
        (Ok(v), false) => fail!(format!("{}/invalid-accepted", what), "{}: view_mut(({},{}),({},{})) on a {}x{} receiver must panic but returned a view of size {:?}", what, w[0], w[1], w[2], w[3], c, r, v.size()),
        (Err(m), true) => fail!(format!("{}/valid-panicked", what), "{}: view_mut(({},{}),({},{})) on a {}x{} receiver is valid but panicked: {}", what, w[0], w[1], w[2], w[3], c, r, m),
        (Ok(mut v), true) => {
            note_classes(w, c, r, wk);
            let o2 = check_view(&v, w, o, wk, &what)?;
            // write a fresh value into every cell of the window through the mutable view
            let (vc, vr) = v.size();
            for rr in 0..vr {
                for cc in 0..vc {
                    wk.next += 1;
                    let val = 0x4000_0000 + wk.next;
                    if (rr + cc) % 2 == 0 {
                        v[(cc, rr)] = val;
                    } else {
                        v[rr][cc] = val;
                    }
                    wk.want[(o2.1 + rr) * wk.pc + o2.0 + cc] = val;
                }
            }
            walk_mut(&mut v, &chain[1..], o2, wk)
        }
    }
}

/// The first window of the chain on an array of a zero-sized element type.
fn zst_window(cols: usize, rows: usize, lv: &Level) -> Verdict {
    let mut z: TooDee<()> = if cols == 0 || rows == 0 { TooDee::default() } else { TooDee::init(cols, rows, ()) };
    let (c, r) = z.size();
    let w = lv.win;
    let valid = window_valid(w, c, r);
    let (s, e) = ((w[0] as usize, w[1] as usize), (w[2] as usize, w[3] as usize));
    let res = if lv.mutable { catch(|| z.view_mut(s, e).size()) } else { catch(|| z.view(s, e).size()) };
    match (res, valid) {
        (Ok(sz), true) => {
            let (mut ec, mut er) = (e.0 - s.0, e.1 - s.1);
            if ec == 0 || er == 0 {
                ec = 0;
                er = 0;
            }
            ensure!(sz == (ec, er), "zst/window-size", "window {:?}..{:?} of a {}x{} array of a zero-sized element type has size {:?}", s, e, c, r, sz);
            Ok(())
        }
        (Err(_), false) => Ok(()),
        (Ok(sz), false) => fail!("zst/invalid-window-accepted", "invalid window {:?}..{:?} of a {}x{} array of a zero-sized element type returned a view of size {:?}", s, e, c, r, sz),
        (Err(m), true) => fail!("zst/valid-window-panicked", "valid window {:?}..{:?} of a {}x{} array of a zero-sized element type panicked: {}", s, e, c, r, m),
    }
}

/// The chain on a giant grid of `()`: validity, size and the corners of every level.
fn giant_walk<X: TooDeeOps<()>>(x: &X, chain: &[Level], depth: usize, rejected: &mut bool) -> Verdict {
    let Some(lv) = chain.first() else { return Ok(()) };
    let (c, r) = x.size();
    let w = lv.win;
    let valid = window_valid(w, c, r);
    let (s, e) = ((w[0] as usize, w[1] as usize), (w[2] as usize, w[3] as usize));
    match (catch(|| x.view(s, e)), valid) {
        (Err(_), false) => {
            *rejected = true;
            Ok(())
        }
        (Ok(v), false) => fail!("giant/invalid-window-accepted", "level {}: invalid window {:?}..{:?} of a {}x{} grid of a zero-sized element type returned a view of size {:?}", depth, s, e, c, r, v.size()),
        (Err(m), true) => fail!("giant/valid-window-panicked", "level {}: valid window {:?}..{:?} of a {}x{} grid of a zero-sized element type panicked: {}", depth, s, e, c, r, m),
        (Ok(v), true) => {
            let (mut ec, mut er) = (e.0 - s.0, e.1 - s.1);
            if ec == 0 || er == 0 {
                ec = 0;
                er = 0;
            }
            ensure!(v.size() == (ec, er) && v.num_cols() == ec && v.num_rows() == er, "giant/window-size", "level {}: window {:?}..{:?} of a {}x{} grid of a zero-sized element type has size {:?}, expected ({},{})", depth, s, e, c, r, v.size(), ec, er);
            if ec > 0 {
                let last = catch(|| {
                    let _ = &v[(ec - 1, er - 1)];
                    let _ = &v[(0, 0)];
                    (v[er - 1].len(), v[0].len())
                });
                ensure!(last == Ok((ec, ec)), "giant/window-corner", "level {}: window {:?}..{:?} of a {}x{} grid of a zero-sized element type: its corner cells / rows are not accessible: {:?}", depth, s, e, c, r, last);
            }
            let past = catch(|| {
                let _ = &v[(ec, 0)];
            });
            let past2 = catch(|| {
                let _ = &v[(0, er)];
            });
            ensure!(past.is_err() && past2.is_err(), "giant/window-past-corner", "level {}: window {:?}..{:?} of a {}x{} grid of a zero-sized element type accepts a coordinate equal to its size", depth, s, e, c, r);
            giant_walk(&v, &chain[1..], depth + 1, rejected)
        }
    }
}

fn giant_walk_mut<X: TooDeeOpsMut<()>>(x: &mut X, chain: &[Level], depth: usize, rejected: &mut bool) -> Verdict {
    let Some(lv) = chain.first() else { return Ok(()) };
    if !lv.mutable {
        return giant_walk(&*x, chain, depth, rejected);
    }
    let (c, r) = x.size();
    let w = lv.win;
    let valid = window_valid(w, c, r);
    let (s, e) = ((w[0] as usize, w[1] as usize), (w[2] as usize, w[3] as usize));
    match (catch(|| x.view_mut(s, e)), valid) {
        (Err(_), false) => {
            *rejected = true;
            Ok(())
        }
        (Ok(v), false) => fail!("giant/invalid-window-accepted", "level {}: invalid mutable window {:?}..{:?} of a {}x{} grid of a zero-sized element type returned a view of size {:?}", depth, s, e, c, r, v.size()),
        (Err(m), true) => fail!("giant/valid-window-panicked", "level {}: valid mutable window {:?}..{:?} of a {}x{} grid of a zero-sized element type panicked: {}", depth, s, e, c, r, m),
        (Ok(mut v), true) => {
            let (mut ec, mut er) = (e.0 - s.0, e.1 - s.1);
            if ec == 0 || er == 0 {
                ec = 0;
                er = 0;
            }
            ensure!(v.size() == (ec, er), "giant/window-size", "level {}: mutable window {:?}..{:?} of a {}x{} grid of a zero-sized element type has size {:?}, expected ({},{})", depth, s, e, c, r, v.size(), ec, er);
            if ec > 0 {
                let last = catch(|| {
                    v[(ec - 1, er - 1)] = ();
                    v[er - 1][0] = ();
                });
                ensure!(last.is_ok(), "giant/window-corner", "level {}: mutable window {:?}..{:?} of a {}x{} grid of a zero-sized element type: its last cell is not writable: {:?}", depth, s, e, c, r, last);
            }
            let past = catch(|| v[(ec, er.saturating_sub(1))] = ());
            ensure!(past.is_err(), "giant/window-past-corner", "level {}: mutable window {:?}..{:?} of a {}x{} grid of a zero-sized element type accepts a write at column {}", depth, s, e, c, r, ec);
            giant_walk_mut(&mut v, &chain[1..], depth + 1, rejected)
        }
    }
}

fn giant_window_case(k: &WindowCase, ctx: &mut Ctx) -> Verdict {
    let (gc, gr) = crate::giant::shape(k.giant);
    let mut rejected = false;
    match k.root {
        Root::Owned => giant_walk_mut(&mut crate::giant::owned(gc, gr), &k.chain, 1, &mut rejected)?,
        Root::Thin => giant_walk_mut(&mut Thin::new(&mut crate::giant::owned(gc, gr)), &k.chain, 1, &mut rejected)?,
        Root::SliceView(s) => giant_walk(&TooDeeView::new(gc, gr, &crate::giant::UNITS[..(gc * gr).saturating_add(s as usize)]), &k.chain, 1, &mut rejected)?,
        Root::SliceViewMut(s) => {
            let mut v = vec![(); (gc * gr).saturating_add(s as usize)];
            giant_walk_mut(&mut TooDeeViewMut::new(gc, gr, &mut v[..]), &k.chain, 1, &mut rejected)?
        }
    }
    ctx.nt();
    ctx.class("giant-unit-grid");
    ctx.class(if rejected { "giant/invalid-window-panics" } else { "giant/valid-window" });
    Ok(())
}

pub fn exec_window(k: &WindowCase, ctx: &mut Ctx) -> Verdict {
    if k.giant > 0 {
        return giant_window_case(k, ctx);
    }
    if let (Some(lv), true) = (k.chain.first(), matches!(k.root, Root::Owned | Root::Thin)) {
        if k.cols <= 6 && k.rows <= 6 {
            zst_window(k.cols as usize, k.rows as usize, lv)?;
            ctx.class("zero-sized-companion");
        }
    }
    let (cols, rows) = if k.cols == 0 || k.rows == 0 { (0usize, 0usize) } else { (k.cols as usize, k.rows as usize) };
    let n = cols * rows;
    let slack = match k.root {
        Root::SliceView(s) | Root::SliceViewMut(s) => s as usize,
        _ => 0,
    };
    let vals: Vec<u32> = (0..(n + slack) as u32).map(|i| i * 3 + 1).collect();
    let mut want = vals.clone();
    let mut buf = vals.clone();
    let mut parent = if slack > 0 || !matches!(k.root, Root::Owned | Root::Thin) { TooDee::default() } else { TooDee::from_vec(cols, rows, vals.clone()) };
    let uses_buf = !matches!(k.root, Root::Owned | Root::Thin);
    let base = if uses_buf { buf.as_ptr() as usize } else { parent.data().as_ptr() as usize };
    let mut wk = Walk { base, pc: cols, want: &mut want, next: 0, depth: 0, interior: false, zero_extent_far: false, rejected: false };
    match k.root {
        Root::Owned => walk_mut(&mut parent, &k.chain, (0, 0), &mut wk)?,
        Root::Thin => walk_mut(&mut Thin::new(&mut parent), &k.chain, (0, 0), &mut wk)?,
        Root::SliceView(_) => {
            let v = TooDeeView::new(cols, rows, &buf[..]);
            check_view(&v, [0, 0, cols as u64, rows as u64], (0, 0), &mut wk, "TooDeeView::new")?;
            walk_shared(&v, &k.chain, (0, 0), &mut wk)?
        }
        Root::SliceViewMut(_) => {
            let mut v = TooDeeViewMut::new(cols, rows, &mut buf[..]);
            check_view(&v, [0, 0, cols as u64, rows as u64], (0, 0), &mut wk, "TooDeeViewMut::new")?;
            walk_mut(&mut v, &k.chain, (0, 0), &mut wk)?
        }
    }
    let (depth, interior, zef, rejected) = (wk.depth, wk.interior, wk.zero_extent_far, wk.rejected);
    let after: &[u32] = if uses_buf { &buf } else { parent.data() };
    if after != &want[..after.len()] {
        let i = (0..after.len()).find(|&i| after[i] != want[i]).unwrap();
        fail!("write-through/root-differs", "after writing every cell of each mutable window, root cell {} (col {}, row {}) is {:#x} but should be {:#x}: writing through a mutable view must change exactly the corresponding parent cells", i, i % cols.max(1), i / cols.max(1), after[i], want[i]);
    }
    if interior || zef || depth >= 2 || rejected {
        ctx.nt();
    }
    if rejected {
        ctx.class("invalid-window-panics");
    }
    if zef {
        ctx.class("zero-extent-at-far-edge");
    }
    if interior {
        ctx.class("window-smaller-than-parent");
    }
    ctx.class(&format!("depth-{}", depth));
    ctx.class(&format!("root-{:?}", k.root).split('(').next().unwrap().to_string());
    Ok(())
}

/// resolve symbolic bounds level by level against the giant grid's (shrinking) size
fn giant_chain(g: u8, root: Root, lvls: &[(bool, [u8; 4])]) -> WindowCase {
    let (mut c, mut r) = crate::giant::shape(g);
    let mut chain = Vec::new();
    let mut mutable_ok = !matches!(root, Root::SliceView(_));
    for &(m, b) in lvls {
        let (a0, a1) = (crate::giant::bound(c, b[0]), crate::giant::bound(c, b[2]));
        let (b0, b1) = (crate::giant::bound(r, b[1]), crate::giant::bound(r, b[3]));
        // mostly ordered bounds
        let (x0, x1) = if b[0] % 5 != 0 { (a0.min(a1), a0.max(a1)) } else { (a0, a1) };
        let (y0, y1) = if b[1] % 5 != 0 { (b0.min(b1), b0.max(b1)) } else { (b0, b1) };
        let win = [x0 as u64, y0 as u64, x1 as u64, y1 as u64];
        let mutable = m && mutable_ok;
        if !mutable {
            mutable_ok = false;
        }
        chain.push(Level { mutable, win });
        if !window_valid(win, c, r) {
            break;
        }
        let (ec, er) = (x1 - x0, y1 - y0);
        if ec == 0 || er == 0 {
            c = 0;
            r = 0;
        } else {
            c = ec;
            r = er;
        }
    }
    WindowCase { cols: 0, rows: 0, root, chain, giant: g }
}

pub struct C03;
impl Prop for C03 {
    type Case = WindowCase;
    const ID: &'static str = "C03";
    fn rule() -> &'static str {
        "view / view_mut chains of depth 1..3 over {owned array, third-party wrapper, TooDeeView::new / TooDeeViewMut::new over a plain slice with slack}: depth 1 exhaustive over parent shapes (0..=4)^2 (thorough (0..=6)^2) x all (start,end) in {0..dim+1}^4 plus huge components; depth 2 exhaustive inner windows for fixed outer windows; random depth <= 3 with each level generated inside (or just outside) the previous one. Oracle: valid <=> start <= end <= size componentwise => no panic, size == end-start or (0,0) if an extent is zero, and the ADDRESS of every view cell v[(c,r)] equals the root-buffer address of the composed parent coordinate; invalid => panic. For view_mut every cell is overwritten through the view and the whole root buffer is compared with the model. Non-trivial = a window smaller than its parent, or a zero-extent window at the far edge, or depth >= 2, or a rejected window. Distinct = distinct case. Also: giant grids of () (20 shapes, bounds from {0,1,2,d/3,d/2,d-2,d-1,d,d+1,MAX,MAX/2+1}^4 exhaustively at depth 1, fixed outer windows at depth 2): validity, size, corner cells."
    }
    fn bound(t: Tier) -> String {
        format!("depth 1: shapes (0..={n})^2, all (x0,y0,x1,y1) in {{0..dim+1}}^4, view and view_mut, 4 roots; depth 2: all inner windows of 6 fixed outer windows (three of them empty) of 4x4 / 5x4 / 3x2 parents", n = if t == Tier::Quick { 4 } else { 6 })
    }
    fn enumerate(tier: Tier, emit: &mut dyn FnMut(WindowCase)) {
        let n = if tier == Tier::Quick { 4u8 } else { 6u8 };
        for root in [Root::Owned, Root::SliceView(2), Root::SliceViewMut(5), Root::Thin] {
            for cols in 0..=n {
                for rows in 0..=n {
                    if (cols == 0) != (rows == 0) {
                        continue;
                    }
                    let (c, r) = (cols as u64, rows as u64);
                    for mutable in [false, true] {
                        if mutable && matches!(root, Root::SliceView(_)) {
                            continue;
                        }
                        for x0 in 0..=c + 1 {
                            for x1 in 0..=c + 1 {
                                for y0 in 0..=r + 1 {
                                    for y1 in 0..=r + 1 {
                                        emit(WindowCase { cols, rows, root, chain: vec![Level { mutable, win: [x0, y0, x1, y1] }], giant: 0 });
                                    }
                                }
                            }
                        }
                        for h in [u64::MAX, u64::MAX / 2 + 1, 1 << 32] {
                            emit(WindowCase { cols, rows, root, chain: vec![Level { mutable, win: [0, 0, h, r] }], giant: 0 });
                            emit(WindowCase { cols, rows, root, chain: vec![Level { mutable, win: [0, 0, c, h] }], giant: 0 });
                            emit(WindowCase { cols, rows, root, chain: vec![Level { mutable, win: [h, 0, h, r] }], giant: 0 });
                            emit(WindowCase { cols, rows, root, chain: vec![Level { mutable, win: [0, h, c, h] }], giant: 0 });
                            emit(WindowCase { cols, rows, root, chain: vec![Level { mutable, win: [h, h, h, h] }], giant: 0 });
                        }
                    }
                }
            }
        }
        // giant grids of `()`: depth 1 exhaustive over the symbolic bounds, depth 2 inside two fixed outer windows
        for g in 1..=crate::giant::SHAPES.len() as u8 {
            for (root, mutable) in [(Root::Owned, false), (Root::Owned, true), (Root::SliceView(1), false)] {
                for x0 in 0..crate::giant::BOUNDS {
                    for x1 in 0..crate::giant::BOUNDS {
                        for y0 in 0..crate::giant::BOUNDS {
                            for y1 in 0..crate::giant::BOUNDS {
                                let (gc, gr) = crate::giant::shape(g);
                                let win = [crate::giant::bound(gc, x0) as u64, crate::giant::bound(gr, y0) as u64, crate::giant::bound(gc, x1) as u64, crate::giant::bound(gr, y1) as u64];
                                emit(WindowCase { cols: 0, rows: 0, root, chain: vec![Level { mutable, win }], giant: g });
                            }
                        }
                    }
                }
            }
            for outer in [[1u8, 1, 7, 7], [0, 2, 6, 7], [3, 0, 7, 5]] {
                for x0 in [0u8, 1, 6, 7] {
                    for y0 in [0u8, 1, 6, 7] {
                        for x1 in [6u8, 7, 8] {
                            for y1 in [6u8, 7, 8] {
                                emit(giant_chain(g, Root::Owned, &[(true, outer), (x0 % 2 == 0, [x0, y0, x1, y1])]));
                            }
                        }
                    }
                }
            }
        }
        // depth 2 (and one depth 3): all inner windows of fixed outer windows of a 4x4 / 5x4 parent
        for root in [Root::Owned, Root::SliceViewMut(1)] {
            for (cols, rows, outer) in [(4u8, 4u8, [1u64, 1, 3, 4]), (5, 4, [0, 1, 3, 3]), (4, 4, [2, 0, 4, 2]), (4, 4, [1, 1, 1, 3]), (4, 4, [4, 4, 4, 4]), (3, 2, [0, 2, 3, 2])] {
                let (oc, or) = (outer[2] - outer[0], outer[3] - outer[1]);
                for m1 in [false, true] {
                    for m2 in [false, true] {
                        if m2 && !m1 {
                            continue;
                        }
                        for x0 in 0..=oc + 1 {
                            for x1 in 0..=oc + 1 {
                                for y0 in 0..=or + 1 {
                                    for y1 in 0..=or + 1 {
                                        emit(WindowCase { cols, rows, root, chain: vec![Level { mutable: m1, win: outer }, Level { mutable: m2, win: [x0, y0, x1, y1] }], giant: 0 });
                                        if x0 <= x1 && y0 <= y1 && x1 <= oc && y1 <= or && x1 - x0 >= 1 && y1 - y0 >= 1 {
                                            emit(WindowCase { cols, rows, root, chain: vec![Level { mutable: m1, win: outer }, Level { mutable: m2, win: [x0, y0, x1, y1] }, Level { mutable: m2, win: [(x1 - x0) / 2, 0, x1 - x0, y1 - y0] }], giant: 0 });
                                        }
                                    }
                                }
                            }
                        }
                    }
                }
            }
        }
    }
    fn strategy(_t: Tier) -> BoxedStrategy<WindowCase> {
        // each level is generated as fractions of the previous level's size, so that it is
        // valid with high probability; a few are pushed just outside or far outside
        let lvl = || (any::<bool>(), any::<[u16; 4]>(), prop_oneof![12 => Just(0u8), 1 => Just(1u8), 1 => Just(2u8), 1 => Just(3u8)], prop::bool::weighted(0.25));
        let small = (prop_oneof![49 => 0u8..=12, 1 => 0u8..=100], prop_oneof![49 => 0u8..=12, 1 => 0u8..=100], prop_oneof![4 => Just(Root::Owned), 1 => Just(Root::Thin), 1 => (0u8..6).prop_map(Root::SliceView), 2 => (0u8..6).prop_map(Root::SliceViewMut)], prop::collection::vec(lvl(), 1..=3))
            .prop_map(|(cols, rows, root, lvls)| {
                let (cols, rows) = if cols == 0 || rows == 0 { (0, 0) } else { (cols, rows) };
                let (mut c, mut r) = (cols as u64, rows as u64);
                let mut chain = Vec::new();
                let mut mutable_ok = !matches!(root, Root::SliceView(_));
                for (m, f, bad, empty) in lvls {
                    let pick = |fr: u16, d: u64| (fr as u64 * (d + 1)) >> 16;
                    let (a, b) = (pick(f[0], c), pick(f[1], c));
                    let (x0, mut x1) = (a.min(b), a.max(b));
                    let (a, b) = (pick(f[2], r), pick(f[3], r));
                    let (y0, mut y1) = (a.min(b), a.max(b));
                    if empty {
                        // zero-extent windows placed anywhere, often on the far edge
                        if f[0] % 2 == 0 {
                            x1 = x0;
                        } else {
                            y1 = y0;
                        }
                    }
                    let mut win = [x0, y0, x1, y1];
                    match bad {
                        1 => win[2] = c + 1,
                        2 => win[3] = r + 1 + (f[0] as u64 % 3),
                        3 => win[(f[1] % 4) as usize] = [u64::MAX, u64::MAX / 2 + 1, 1 << 32, 1 << 63][(f[2] % 4) as usize],
                        _ => {}
                    }
                    let mutable = m && mutable_ok;
                    if !mutable {
                        mutable_ok = false;
                    }
                    chain.push(Level { mutable, win });
                    if bad != 0 {
                        break;
                    }
                    let (ec, er) = (win[2] - win[0], win[3] - win[1]);
                    if ec == 0 || er == 0 {
                        c = 0;
                        r = 0;
                    } else {
                        c = ec;
                        r = er;
                    }
                }
                WindowCase { cols, rows, root, chain, giant: 0 }
            });
        // giant grids: every level picks its bounds from {0,1,2,d/3,d/2,d-2,d-1,d,d+1,MAX,MAX/2+1} of the previous level
        let glvl = || (any::<bool>(), [0u8..crate::giant::BOUNDS, 0u8..crate::giant::BOUNDS, 0u8..crate::giant::BOUNDS, 0u8..crate::giant::BOUNDS]);
        let giant = (1u8..=crate::giant::SHAPES.len() as u8, prop_oneof![4 => Just(Root::Owned), 1 => Just(Root::Thin), 1 => (0u8..3).prop_map(Root::SliceView), 1 => (0u8..3).prop_map(Root::SliceViewMut)], prop::collection::vec(glvl(), 1..=3)).prop_map(|(g, root, lvls)| giant_chain(g, root, &lvls));
        prop_oneof![24 => small, 1 => giant].boxed()
    }
    fn fuzz_sanitize(k: &mut WindowCase) -> bool {
        k.cols %= 9;
        k.rows %= 9;
        k.chain.truncate(4);
        k.giant = if k.giant < 224 { 0 } else { k.giant - 223 };
        let mut shared = matches!(k.root, Root::SliceView(_));
        for l in k.chain.iter_mut() {
            if shared {
                l.mutable = false;
            }
            if !l.mutable {
                shared = true;
            }
        }
        match &mut k.root {
            Root::SliceView(s) | Root::SliceViewMut(s) => *s %= 9,
            _ => {}
        }
        !k.chain.is_empty()
    }
    fn random_cases(tier: Tier) -> u64 {
        if tier == Tier::Quick { 500_000 } else { 8_000_000 }
    }
    fn execute(k: &WindowCase, ctx: &mut Ctx) -> Verdict {
        exec_window(k, ctx)
    }
    fn essential_classes() -> &'static [&'static str] {
        &["zero-extent-at-far-edge", "invalid-window-panics", "window-smaller-than-parent", "depth-1", "depth-2", "depth-3", "root-Owned", "root-SliceView", "root-SliceViewMut", "root-Thin", "giant-unit-grid", "giant/valid-window", "giant/invalid-window-panics"]
    }
}
