//! C01 (dimensions always agree with contents) and C05 (every element dropped exactly once):
//! two oracles over the same model-based history engine.

use super::history::{self, History, Mode};
use crate::cases::ElemKind;
use crate::runner::*;
use proptest::prelude::*;

fn giant_history(g: super::gianthist::GiantHist) -> History {
    History { elem: ElemKind::U32, valid_only: false, ctor: history::Ctor::Default, ops: vec![], giant: Some(g) }
}

pub struct C01;
impl Prop for C01 {
    type Case = History;
    const ID: &'static str = "C01";
    fn rule() -> &'static str {
        "random histories (constructor + up to 40/120 operations with symbolic, state-resolved arguments; ~15% deliberately invalid) on TooDee<u32|Tr|Zs|u128|3-byte struct>, compared with a rows-of-cells model after every step. Non-trivial = successful structural operations on both axes, or the array shrinks to (0,0) and regrows, or a rejected call is followed by further steps, or a drain is dropped partially consumed. Distinct = distinct serialised history. Also: structural histories on giant arrays of () with ~usize::MAX cells (model = (cols, rows); a growth that cannot fit in usize must panic and leave a valid array), element types W40 (40 bytes) and Nd (no drop glue)."
    }
    fn strategy(tier: Tier) -> BoxedStrategy<History> {
        let n = if tier == Tier::Quick { 40 } else { 120 };
        let small = history::history(&[(6, ElemKind::Tr), (3, ElemKind::U32), (2, ElemKind::Zs), (1, ElemKind::U128), (1, ElemKind::B3), (1, ElemKind::W40), (1, ElemKind::Nd)], 0.15, n, 0.0);
        let giant = super::gianthist::strategy(super::gianthist::Focus::All).prop_map(giant_history);
        prop_oneof![24 => small, 1 => giant].boxed()
    }
    fn enumerate(_tier: Tier, emit: &mut dyn FnMut(History)) {
        super::gianthist::enumerate(super::gianthist::Focus::All, &mut |g| emit(giant_history(g)));
    }
    fn random_cases(tier: Tier) -> u64 {
        if tier == Tier::Quick { 200_000 } else { 3_000_000 }
    }
    fn execute(case: &History, ctx: &mut Ctx) -> Verdict {
        if let Some(g) = &case.giant {
            return super::gianthist::exec_giant(g, super::gianthist::Focus::All, ctx);
        }
        history::execute(case, Mode::Shape, ctx)
    }
    fn fuzz_sanitize(case: &mut History) -> bool {
        if case.elem == ElemKind::Bx {
            case.elem = ElemKind::Tr;
        }
        if let Some(g) = &mut case.giant {
            super::gianthist::sanitize(g);
        }
        history::sanitize(case)
    }
    fn essential_classes() -> &'static [&'static str] {
        &["passes-through-empty", "interleaves-axes", "has-rejected-call", "drain-partial", "regrows-from-empty", "op-in-window", "giant-unit-grid", "giant/growth-that-cannot-fit-panics", "giant/rejected-call", "giant/applied-insert-or-remove"]
    }
}

pub struct C05;
impl Prop for C05 {
    type Case = History;
    const ID: &'static str = "C05";
    fn rule() -> &'static str {
        "random histories on TooDee<Tr|Bx|Zs> (elements with drop side effects, Bx heap-owning, Zs zero-sized) with drains consumed 0..n from either end, conversions, clone, clear, overwrites; drop ledger checked after every step (reachable ids live, pairwise distinct, live == reachable + handed out) and at the final drop (nothing live). Non-trivial = panic-free history with an insert into a non-empty array or a partially consumed drain. Distinct = distinct serialised history."
    }
    fn strategy(tier: Tier) -> BoxedStrategy<History> {
        let n = if tier == Tier::Quick { 40 } else { 120 };
        history::history(&[(3, ElemKind::Tr), (2, ElemKind::Bx), (2, ElemKind::Zs)], 0.8, n, 0.04).boxed()
    }
    fn random_cases(tier: Tier) -> u64 {
        if tier == Tier::Quick { 200_000 } else { 3_000_000 }
    }
    fn execute(case: &History, ctx: &mut Ctx) -> Verdict {
        history::execute(case, Mode::Drops, ctx)
    }
    fn fuzz_sanitize(case: &mut History) -> bool {
        if matches!(case.elem, ElemKind::U32 | ElemKind::U128 | ElemKind::B3 | ElemKind::W40 | ElemKind::Nd) {
            case.elem = ElemKind::Bx;
        }
        case.giant = None;
        history::sanitize(case)
    }
    fn essential_classes() -> &'static [&'static str] {
        &["panic-free-history", "drain-partial", "conversion", "Zs", "Bx", "Tr", "caller-code-fault-fired", "drain-leaked"]
    }
}
