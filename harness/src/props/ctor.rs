//! C20: constructors and conversions preserve contents and reject bad shapes; clone is equal
//! and independent; == / Hash agree with (dimensions, cells).

use super::grid::{layout, small_margin, Recv};
use crate::cases::*;
use crate::elem::{self, Elem, Tr};
use crate::runner::*;
use crate::{ensure, fail};
use proptest::prelude::*;
use serde::{Deserialize, Serialize};
use std::collections::hash_map::DefaultHasher;
use std::hash::{Hash, Hasher};
use toodee::*;

#[derive(Serialize, Deserialize, Clone, Copy, Debug, PartialEq, Eq)]
pub enum CtorKind {
    New,
    Init,
    FromVec,
    FromBox,
    Default,
    WithCapacity,
    ViewNew,
    ViewMutNew,
}

#[derive(Serialize, Deserialize, Clone, Copy, Debug, PartialEq, Eq)]
pub enum Conv {
    IntoVec,
    IntoBox,
    IntoIter,
    AsRefs,
    Clone,
    ViewFromViewMut,
}

#[derive(Serialize, Deserialize, Clone, Copy, Debug, PartialEq, Eq)]
pub enum EqVariant {
    Identical,
    /// same flat data, dimensions exchanged
    Transposed,
    /// same flat data, reshaped to 1 x n
    Flattened,
    OneCellChanged(u16),
    DifferentCapacity,
    /// b = a plus one more row / column of the same values
    ExtraRow,
    ExtraCol,
    EmptyVsEmpty,
    /// an array with a cell that is not equal to itself (f64 NaN) compared with itself and with its clone
    NotReflexive,
    /// cells whose Eq / Hash look at one field only (the other field differs between a and b),
    /// and `&str` cells with equal contents at different addresses
    EqByKey,
}

#[derive(Serialize, Deserialize, Clone, Debug, PartialEq)]
pub enum CtorCase {
    Build { kind: CtorKind, c: Dim, r: Dim, delta: i8, tracked: bool, #[serde(default)] zst: bool },
    FromView { cols: u8, rows: u8, m: [u8; 4], mutable: bool, nested: Option<[u8; 4]>, tracked: bool },
    Convert { cols: u8, rows: u8, what: Conv, take: (u8, u8), tracked: bool },
    EqHash { cols: u8, rows: u8, variant: EqVariant },
    /// `target.clone_from(&source)` with a (tc x tr) target: Clone's other method must leave the
    /// target equal to, and independent of, the source whatever the target held before
    CloneFrom { cols: u8, rows: u8, tc: u8, tr: u8, tracked: bool, spare: bool },
}

fn hash_of<T: Hash>(t: &T) -> u64 {
    let mut h = DefaultHasher::new();
    t.hash(&mut h);
    h.finish()
}

fn build_case<E: Elem + Clone + Default>(kind: CtorKind, c: usize, r: usize, delta: i8, ctx: &mut Ctx) -> Verdict {
    let legal_dims = dims_legal(c, r);
    let prod = c.checked_mul(r);
    // buffer length for the buffer-taking constructors
    let buf_len = match prod {
        Some(p) if p <= 4096 => (p as i64 + delta as i64).max(0) as usize,
        _ => delta.unsigned_abs() as usize,
    };
    let name = format!("{:?}", kind);
    match kind {
        CtorKind::Default | CtorKind::WithCapacity => {
            let t: TooDee<E> = if kind == CtorKind::Default { TooDee::default() } else { TooDee::with_capacity(buf_len) };
            ensure!(t.size() == (0, 0) && t.data().is_empty() && t.is_empty(), format!("{}/not-empty", name), "{} produced size {:?} with {} cells", name, t.size(), t.data().len());
            if kind == CtorKind::WithCapacity {
                ensure!(t.capacity() >= buf_len || E::ZST, format!("{}/capacity", name), "with_capacity({}) has capacity {}", buf_len, t.capacity());
            }
            ctx.class("accepted");
            return Ok(());
        }
        CtorKind::New | CtorKind::Init => {
            let legal = legal_dims;
            if legal && prod.unwrap() > 4096 {
                ctx.class("skipped-huge-legal-request");
                return Ok(());
            }
            let res = if kind == CtorKind::New { catch(|| TooDee::<E>::new(c, r)) } else { catch(|| TooDee::<E>::init(c, r, E::mint(3))) };
            match (res, legal) {
                (Ok(t), true) => {
                    ensure!(t.size() == (c, r) && t.data().len() == c * r, format!("{}/wrong-shape", name), "{}({},{}) has size {:?} and {} cells", name, c, r, t.size(), t.data().len());
                    let want_key = if kind == CtorKind::New { 0 } else { 3 };
                    let mut seen = std::collections::HashSet::new();
                    for e in t.data() {
                        ensure!(E::ZST || e.key() == want_key, format!("{}/wrong-value", name), "{}({},{}): a cell holds key {} instead of {}", name, c, r, e.key(), want_key);
                        if E::TRACKED {
                            ensure!(seen.insert(e.id()) && elem::is_live(e.id()), format!("{}/cells-not-independent", name), "{}({},{}): a cell is shared or dead", name, c, r);
                        }
                    }
                    ctx.class("accepted");
                }
                (Err(_), false) => {
                    ctx.class("rejected");
                    ctx.nt();
                }
                (Ok(t), false) => fail!(format!("{}/illegal-accepted", name), "{}({},{}) must panic (dimensions overflow or exactly one is zero) but returned an array of size {:?} with {} cells", name, c, r, t.size(), t.data().len()),
                (Err(m), true) => fail!(format!("{}/legal-panicked", name), "{}({},{}) is a legal request but panicked: {}", name, c, r, m),
            }
        }
        CtorKind::FromVec | CtorKind::FromBox => {
            let legal = legal_dims && prod == Some(buf_len);
            let mut v: Vec<E> = (0..buf_len).map(|i| E::mint((i % 4) as u8)).collect();
            if delta % 2 == 0 {
                v.reserve(5);
            }
            let ids: Vec<u64> = v.iter().map(|e| e.id()).collect();
            let res = if kind == CtorKind::FromVec { catch(|| TooDee::from_vec(c, r, v)) } else { catch(|| TooDee::from_box(c, r, v.into_boxed_slice())) };
            match (res, legal) {
                (Ok(t), true) => {
                    ensure!(t.size() == (c, r), format!("{}/wrong-shape", name), "{}({},{}, {} items) has size {:?}", name, c, r, buf_len, t.size());
                    let got: Vec<u64> = t.data().iter().map(|e| e.id()).collect();
                    ensure!(got == ids || E::ZST, format!("{}/wrong-cells", name), "{}({},{}): cells {:?} but the buffer held {:?}", name, c, r, got, ids);
                    for y in 0..r {
                        for x in 0..c {
                            ensure!(E::ZST || t[(x, y)].id() == ids[y * c + x], format!("{}/not-row-major", name), "{}: cell ({},{}) is not buffer element {}", name, x, y, y * c + x);
                        }
                    }
                    ctx.class("accepted");
                }
                (Err(_), false) => {
                    ctx.class("rejected");
                    ctx.nt();
                }
                (Ok(t), false) => fail!(format!("{}/illegal-accepted", name), "{}({},{}, buffer of {}) must panic (overflow, one zero dimension, or the buffer does not fit) but returned an array of size {:?}", name, c, r, buf_len, t.size()),
                (Err(m), true) => fail!(format!("{}/legal-panicked", name), "{}({},{}, buffer of {}) is a legal request but panicked: {}", name, c, r, buf_len, m),
            }
        }
        CtorKind::ViewNew | CtorKind::ViewMutNew => {
            // views over a slice accept a longer-than-needed slice
            let slice_len = match prod {
                Some(p) if p <= 4096 => (p as i64 + delta as i64).max(0) as usize,
                _ => delta.unsigned_abs() as usize,
            };
            let legal = legal_dims && prod.map_or(false, |p| p <= slice_len);
            let mut buf: Vec<u32> = (0..slice_len as u32).map(|i| i * 3 + 2).collect();
            let base = buf.as_ptr() as usize;
            let res: Result<(), String> = if kind == CtorKind::ViewNew {
                match catch(|| TooDeeView::new(c, r, &buf[..])) {
                    Ok(v) => check_slice_view(&v, c, r, base, legal, &name),
                    Err(m) => Err(m),
                }
            } else {
                match catch(|| TooDeeViewMut::new(c, r, &mut buf[..])) {
                    Ok(v) => check_slice_view(&v, c, r, base, legal, &name),
                    Err(m) => Err(m),
                }
            };
            match (res, legal) {
                (Ok(()), true) => ctx.class("accepted"),
                (Err(m), _) if m.starts_with("ORACLE:") => fail!(format!("{}/wrong-view", name), "{}({},{}, slice of {}): {}", name, c, r, slice_len, &m[7..]),
                (Err(_), false) => {
                    ctx.class("rejected");
                    ctx.nt();
                }
                (Ok(()), false) => unreachable!(),
                (Err(m), true) => fail!(format!("{}/legal-panicked", name), "{}({},{}, slice of {}) is a legal request but panicked: {}", name, c, r, slice_len, m),
            }
        }
    }
    Ok(())
}

fn check_slice_view<V: TooDeeOps<u32>>(v: &V, c: usize, r: usize, base: usize, legal: bool, name: &str) -> Result<(), String> {
    if !legal {
        return Err(format!("ORACLE:must panic (overflow, one zero dimension, or the slice is too short) but returned a view of size {:?}", v.size()));
    }
    if v.size() != (c, r) {
        return Err(format!("ORACLE:view has size {:?}", v.size()));
    }
    for y in 0..r {
        for x in 0..c {
            let a = &v[(x, y)] as *const u32 as usize;
            if a != base + (y * c + x) * 4 {
                return Err(format!("ORACLE:cell ({},{}) is slice element {} instead of {}", x, y, (a as isize - base as isize) / 4, y * c + x));
            }
        }
    }
    if v.cells().len() != c * r || v.rows().len() != r {
        return Err("ORACLE:cells()/rows() lengths disagree with the dimensions".into());
    }
    let _ = name;
    Ok(())
}

fn from_view_case<E: Elem + Clone>(cols: usize, rows: usize, m: [u8; 4], mutable: bool, nested: Option<[u8; 4]>, ctx: &mut Ctx) -> Verdict {
    let rv = match nested {
        Some(m2) => Recv::nested(m, m2),
        None => Recv::view(m),
    };
    let lay = layout(cols, rows, &rv);
    let mut parent: TooDee<E> = TooDee::from_vec(lay.pc, lay.pr, (0..lay.pc * lay.pr).map(|i| E::mint((i * 7 % 5) as u8)).collect());
    let before: Vec<u64> = parent.data().iter().map(|e| e.id()).collect();
    let mut want_keys = Vec::new();
    for y in 0..lay.r {
        for x in 0..lay.c {
            want_keys.push(parent[(lay.o.0 + x, lay.o.1 + y)].key());
        }
    }
    let t: TooDee<E> = match (mutable, nested.is_some()) {
        (false, false) => TooDee::from(parent.view(lay.s1, lay.e1)),
        (true, false) => TooDee::from(parent.view_mut(lay.s1, lay.e1)),
        (false, true) => TooDee::from(parent.view(lay.s1, lay.e1).view(lay.s2, lay.e2)),
        (true, true) => TooDee::from(parent.view_mut(lay.s1, lay.e1).view_mut(lay.s2, lay.e2)),
    };
    let what = if mutable { "From<TooDeeViewMut>" } else { "From<TooDeeView>" };
    ensure!(t.size() == (lay.c, lay.r), format!("{}/wrong-shape", what), "{} of a {}x{} window has size {:?}", what, lay.c, lay.r, t.size());
    ensure!(t.data().len() == lay.c * lay.r, format!("{}/wrong-len", what), "{} of a {}x{} window has {} cells", what, lay.c, lay.r, t.data().len());
    let got: Vec<u8> = t.data().iter().map(|e| e.key()).collect();
    ensure!(got == want_keys, format!("{}/wrong-cells", what), "{} of the {}x{} window at {:?} of a {}x{} parent has cells {:?}, the viewed cells are {:?}", what, lay.c, lay.r, lay.o, lay.pc, lay.pr, got, want_keys);
    if E::TRACKED {
        for e in t.data() {
            ensure!(!before.contains(&e.id()) && elem::is_live(e.id()), format!("{}/not-a-copy", what), "{}: cell shares its element with the parent", what);
        }
    }
    let after: Vec<u64> = parent.data().iter().map(|e| e.id()).collect();
    ensure!(after == before, format!("{}/parent-changed", what), "{} changed the parent", what);
    if lay.pc > lay.c && lay.c > 0 {
        ctx.class("strided-from-view");
        ctx.nt();
    }
    if lay.c != lay.r {
        ctx.class("non-square-from-view");
    }
    ctx.class(what);
    Ok(())
}

fn clone_from_case<E: Elem + Clone + PartialEq>(cols: usize, rows: usize, tc: usize, tr: usize, spare: bool, ctx: &mut Ctx) -> Verdict {
    let norm = |c: usize, r: usize| if c == 0 || r == 0 { (0, 0) } else { (c, r) };
    let (c, r) = norm(cols, rows);
    let (tc, tr) = norm(tc, tr);
    let src: TooDee<E> = TooDee::from_vec(c, r, (0..c * r).map(|i| E::mint((i % 4) as u8)).collect());
    let ids: Vec<u64> = src.data().iter().map(|e| e.id()).collect();
    let mut v: Vec<E> = Vec::with_capacity(tc * tr + if spare { c * r + 3 } else { 0 });
    v.extend((0..tc * tr).map(|i| E::mint(((i + 1) % 4) as u8)));
    let mut t: TooDee<E> = TooDee::from_vec(tc, tr, v);
    let res = catch(|| t.clone_from(&src));
    ensure!(res.is_ok(), "CloneFrom/panicked", "clone_from of a {}x{} array into a {}x{} array panicked: {:?}", c, r, tc, tr, res);
    ensure!(t.size() == (c, r) && t.data().len() == c * r, "CloneFrom/shape", "after clone_from of a {}x{} array into a {}x{} array the target has size {:?} and {} cells", c, r, tc, tr, t.size(), t.data().len());
    for (i, (a, b)) in t.data().iter().zip(src.data()).enumerate() {
        ensure!(a.key() == b.key(), "CloneFrom/cells", "after clone_from of a {}x{} array into a {}x{} array cell {} differs from the source", c, r, tc, tr, i);
        if E::TRACKED {
            ensure!(a.id() != b.id(), "CloneFrom/shared", "after clone_from the target shares element {} with the source", a.id());
        }
    }
    ensure!(t == src, "CloneFrom/not-equal", "after clone_from the target does not compare equal to the source");
    ensure!(src.size() == (c, r) && src.data().iter().map(|e| e.id()).collect::<Vec<_>>() == ids, "CloneFrom/source-changed", "clone_from changed its source");
    if E::TRACKED {
        ensure!(elem::double_drops().is_empty(), "CloneFrom/double-drop", "clone_from dropped an element twice: {:?}", elem::double_drops());
        ensure!(elem::live_count() as usize == 2 * c * r, "CloneFrom/leak-or-overdrop", "after clone_from of a {}x{} array into a {}x{} array {} elements are live, expected {}", c, r, tc, tr, elem::live_count(), 2 * c * r);
    }
    if !t.is_empty() {
        t[(0, 0)] = E::mint(9);
        t.swap_rows(0, r - 1);
        let _ = t.remove_col(0);
    }
    ensure!(src.data().iter().map(|e| e.id()).collect::<Vec<_>>() == ids, "CloneFrom/not-independent", "mutating the target after clone_from changed the source");
    drop(src);
    if E::TRACKED {
        for e in t.data() {
            ensure!(elem::is_live(e.id()), "CloneFrom/dangling", "dropping the source killed an element of the target");
        }
    }
    ctx.nt();
    ctx.class("CloneFrom");
    ctx.class(if (tc, tr) == (c, r) { "clone_from-same-shape" } else if tc * tr == c * r { "clone_from-same-cell-count-different-shape" } else if tc * tr > c * r { "clone_from-into-larger" } else { "clone_from-into-smaller" });
    Ok(())
}

fn convert_case<E: Elem + Clone>(cols: usize, rows: usize, what: Conv, take: (u8, u8), ctx: &mut Ctx) -> Verdict {
    let (c, r) = if cols == 0 || rows == 0 { (0, 0) } else { (cols, rows) };
    let mut t: TooDee<E> = TooDee::from_vec(c, r, (0..c * r).map(|i| E::mint((i % 4) as u8)).collect());
    let ids: Vec<u64> = t.data().iter().map(|e| e.id()).collect();
    let name = format!("{:?}", what);
    match what {
        Conv::IntoVec => {
            let v: Vec<E> = t.into();
            ensure!(v.iter().map(|e| e.id()).collect::<Vec<_>>() == ids, format!("{}/order", name), "Vec::from(array) is not in row-major order");
        }
        Conv::IntoBox => {
            let b: Box<[E]> = t.into();
            ensure!(b.iter().map(|e| e.id()).collect::<Vec<_>>() == ids, format!("{}/order", name), "Box::<[T]>::from(array) is not in row-major order");
        }
        Conv::IntoIter => {
            let mut it = t.into_iter();
            ensure!(it.len() == ids.len(), format!("{}/len", name), "into_iter().len() {} expected {}", it.len(), ids.len());
            let mut want: std::collections::VecDeque<u64> = ids.clone().into();
            for _ in 0..take.0 {
                ensure!(it.next().map(|e| e.id()) == want.pop_front(), format!("{}/front", name), "into_iter().next() is out of row-major order");
            }
            for _ in 0..take.1 {
                ensure!(it.next_back().map(|e| e.id()) == want.pop_back(), format!("{}/back", name), "into_iter().next_back() is out of row-major order");
            }
            // skipping from either end (nth / nth_back, as used by skip, step_by, rev)
            let (a, b) = ((take.0 % 3) as usize, (take.1 % 3) as usize);
            let w = if a < want.len() { want.drain(..a); want.pop_front() } else { want.clear(); None };
            ensure!(it.nth(a).map(|e| e.id()) == w, format!("{}/nth", name), "into_iter().nth({}) is not the ideal sequence's element", a);
            let w = if b < want.len() { let keep = want.len() - b; want.truncate(keep); want.pop_back() } else { want.clear(); None };
            ensure!(it.nth_back(b).map(|e| e.id()) == w, format!("{}/nth_back", name), "into_iter().nth_back({}) is not the ideal sequence's element", b);
            ensure!(it.len() == want.len(), format!("{}/len-after-nth", name), "into_iter().len() {} but {} remain", it.len(), want.len());
            let rest: Vec<u64> = it.rev().map(|e| e.id()).collect();
            ensure!(rest == want.into_iter().rev().collect::<Vec<_>>(), format!("{}/rest", name), "into_iter() remainder (reversed) is out of row-major order");
        }
        Conv::AsRefs => {
            let a: &[E] = t.as_ref();
            ensure!(a.as_ptr() == t.data().as_ptr() && a.len() == ids.len(), format!("{}/as_ref-slice", name), "AsRef<[T]> is not data()");
            let v: &Vec<E> = t.as_ref();
            ensure!(v.as_ptr() == t.data().as_ptr() && v.len() == ids.len(), format!("{}/as_ref-vec", name), "AsRef<Vec<T>> is not data()");
            let p = t.data().as_ptr();
            let m: &mut [E] = t.as_mut();
            ensure!(m.as_ptr() == p && m.len() == ids.len(), format!("{}/as_mut", name), "AsMut<[T]> is not data()");
            ensure!(t.data_mut().as_ptr() == p, format!("{}/data_mut", name), "data_mut() is not data()");
            for y in 0..r {
                for x in 0..c {
                    ensure!(&t[(x, y)] as *const E == unsafe { p.add(y * c + x) }, format!("{}/row-major", name), "cell ({},{}) is not data()[{}]", x, y, y * c + x);
                }
            }
        }
        Conv::Clone => {
            let mut cl = t.clone();
            ensure!(cl.size() == t.size() && cl.data().len() == ids.len(), format!("{}/shape", name), "clone has size {:?}", cl.size());
            for (a, b) in cl.data().iter().zip(t.data()) {
                ensure!(a.key() == b.key(), format!("{}/cells", name), "clone differs from the original");
                if E::TRACKED {
                    ensure!(a.id() != b.id(), format!("{}/shared", name), "clone shares an element with the original");
                }
            }
            // independence: mutate the clone, the original is unchanged (and vice versa)
            if !cl.is_empty() {
                cl[(0, 0)] = E::mint(9);
                cl.swap_rows(0, r - 1);
                cl.push_row((0..c).map(|_| E::mint(8)).collect::<Vec<_>>());
                let _ = cl.remove_col(0);
            }
            ensure!(t.size() == (c, r) && t.data().iter().map(|e| e.id()).collect::<Vec<_>>() == ids, format!("{}/not-independent", name), "mutating the clone changed the original");
            drop(t);
            if E::TRACKED {
                for e in cl.data() {
                    ensure!(elem::is_live(e.id()), format!("{}/clone-dangling", name), "dropping the original killed an element of the clone");
                }
            }
        }
        Conv::ViewFromViewMut => {
            if c > 0 {
                let p = t.data().as_ptr() as usize;
                let vm = t.view_mut((c / 2, 0), (c, r));
                let (vc, vr) = vm.size();
                let v: TooDeeView<'_, E> = TooDeeView::from(vm);
                ensure!(v.size() == (vc, vr), format!("{}/shape", name), "TooDeeView::from(view_mut) has size {:?} expected ({},{})", v.size(), vc, vr);
                for y in 0..vr {
                    for x in 0..vc {
                        ensure!(&v[(x, y)] as *const E as usize == p + (y * c + c / 2 + x) * std::mem::size_of::<E>(), format!("{}/cells", name), "TooDeeView::from(view_mut): cell ({},{}) is the wrong parent cell", x, y);
                    }
                }
            }
        }
    }
    ctx.class(&name);
    Ok(())
}

/// equal iff the keys are equal; the hash covers the key only
#[derive(Clone, Copy, Debug)]
struct Hk {
    key: u8,
    tag: u8,
}
impl PartialEq for Hk {
    fn eq(&self, o: &Hk) -> bool {
        self.key == o.key
    }
}
impl Eq for Hk {}
impl Hash for Hk {
    fn hash<H: std::hash::Hasher>(&self, h: &mut H) {
        self.key.hash(h)
    }
}

fn eq_special(c: usize, r: usize, variant: EqVariant, ctx: &mut Ctx) -> Verdict {
    let n = c * r;
    match variant {
        EqVariant::NotReflexive => {
            if n == 0 {
                return Ok(());
            }
            let mut v: Vec<f64> = (0..n).map(|i| i as f64).collect();
            v[n / 2] = f64::NAN;
            let a = TooDee::from_vec(c, r, v);
            #[allow(clippy::eq_op)]
            let self_eq = a == a;
            ensure!(!self_eq, "eq/NotReflexive", "a {}x{} array with a NaN cell compares equal to itself although that cell is not equal to itself", c, r);
            let b = a.clone();
            ensure!(a != b && !(a == b), "eq/NotReflexive-clone", "an array with a NaN cell compares equal to its clone");
            let z: TooDee<f64> = TooDee::from_vec(c, r, (0..n).map(|i| i as f64).collect());
            ensure!(z == z.clone(), "eq/reflexive-floats", "an array of ordinary floats differs from its clone");
        }
        _ => {
            let a = TooDee::from_vec(c, r, (0..n).map(|i| Hk { key: (i % 5) as u8, tag: 1 }).collect::<Vec<_>>());
            let b = TooDee::from_vec(c, r, (0..n).map(|i| Hk { key: (i % 5) as u8, tag: 200 }).collect::<Vec<_>>());
            ensure!(a == b, "eq/EqByKey", "arrays whose cells are equal (by their own Eq) compare unequal");
            ensure!(hash_of(&a) == hash_of(&b), "hash/EqByKey", "a == b (cells equal by their own Eq, hash consistent with it) but the arrays hash differently ({}x{})", c, r);
            let words: Vec<String> = (0..n).map(|i| format!("w{}", i % 3)).collect();
            let words2: Vec<String> = words.iter().map(|s| s.to_string()).collect();
            let sa: TooDee<&str> = TooDee::from_vec(c, r, words.iter().map(|s| s.as_str()).collect());
            let sb: TooDee<&str> = TooDee::from_vec(c, r, words2.iter().map(|s| s.as_str()).collect());
            ensure!(sa == sb && hash_of(&sa) == hash_of(&sb), "hash/str-cells", "arrays of equal &str cells at different addresses compare or hash differently ({}x{})", c, r);
            if n > 0 {
                let mut d = a.clone();
                d[(0, 0)] = Hk { key: 9, tag: 1 };
                ensure!(a != d, "eq/EqByKey-differs", "arrays differing in one key compare equal");
            }
        }
    }
    ctx.nt();
    ctx.class(&format!("{:?}", variant));
    Ok(())
}

fn eq_case(cols: usize, rows: usize, variant: EqVariant, ctx: &mut Ctx) -> Verdict {
    let (c, r) = if cols == 0 || rows == 0 { (0, 0) } else { (cols, rows) };
    if matches!(variant, EqVariant::NotReflexive | EqVariant::EqByKey) {
        return eq_special(c, r, variant, ctx);
    }
    let n = c * r;
    let vals: Vec<u32> = (0..n as u32).map(|i| i.wrapping_mul(2654435761u32) >> 20).collect();
    let a = TooDee::from_vec(c, r, vals.clone());
    let b: TooDee<u32> = match variant {
        EqVariant::Identical => TooDee::from_vec(c, r, vals.clone()),
        EqVariant::Transposed => TooDee::from_vec(r, c, vals.clone()),
        EqVariant::Flattened => {
            if n == 0 {
                TooDee::default()
            } else {
                TooDee::from_vec(n, 1, vals.clone())
            }
        }
        EqVariant::OneCellChanged(i) => {
            let mut v = vals.clone();
            if n > 0 {
                let i = i as usize % n;
                v[i] = v[i].wrapping_add(1);
            }
            TooDee::from_vec(c, r, v)
        }
        EqVariant::DifferentCapacity => {
            let mut v = Vec::with_capacity(n + 17);
            v.extend_from_slice(&vals);
            TooDee::from_vec(c, r, v)
        }
        EqVariant::ExtraRow => {
            let mut t = TooDee::from_vec(c, r, vals.clone());
            if c > 0 {
                t.push_row(vals[..c].to_vec());
            }
            t
        }
        EqVariant::ExtraCol => {
            let mut t = TooDee::from_vec(c, r, vals.clone());
            if r > 0 {
                t.push_col((0..r).map(|y| vals[y * c]).collect::<Vec<_>>());
            }
            t
        }
        EqVariant::NotReflexive | EqVariant::EqByKey => unreachable!(),
        EqVariant::EmptyVsEmpty => {
            let mut t: TooDee<u32> = TooDee::with_capacity(9);
            t.push_row(vec![1, 2, 3]);
            let _ = t.pop_row();
            t
        }
    };
    let a = if variant == EqVariant::EmptyVsEmpty { TooDee::default() } else { a };
    let model_eq = a.size() == b.size() && a.data() == b.data();
    let got = a == b;
    ensure!(got == model_eq, format!("eq/{:?}", variant), "a {:?} {:?} vs b {:?} {:?} ({:?}): a == b is {} but (dimensions and cells equal) is {}", a.size(), a.data(), b.size(), b.data(), variant, got, model_eq);
    ensure!((b == a) == got && (a != b) == !got, format!("eq-symmetry/{:?}", variant), "== is not symmetric / != is not its negation for {:?}", variant);
    if got {
        ensure!(hash_of(&a) == hash_of(&b), format!("hash/{:?}", variant), "a == b but their hashes differ ({:?}, size {:?})", variant, a.size());
    }
    // views compare the same way
    if model_eq && !a.is_empty() {
        ensure!(a.view((0, 0), a.size()) == b.view((0, 0), b.size()), "eq/views", "views of equal arrays differ");
    }
    if !model_eq && a.data() == b.data() {
        ctx.class("pair-differing-only-in-shape");
        ctx.nt();
    }
    ctx.class(&format!("{:?}", variant).split('(').next().unwrap().to_string());
    ctx.class(if got { "equal-pair" } else { "unequal-pair" });
    Ok(())
}

pub fn exec(k: &CtorCase, ctx: &mut Ctx) -> Verdict {
    match k {
        CtorCase::Build { kind, c, r, delta, tracked, zst } => {
            ctx.class(&format!("{:?}", kind));
            if *zst && !matches!(kind, CtorKind::ViewNew | CtorKind::ViewMutNew) {
                ctx.class("zero-sized-element");
                build_case::<crate::elem::Zs>(*kind, c.get(), r.get(), *delta, ctx)
            } else if *tracked {
                build_case::<Tr>(*kind, c.get(), r.get(), *delta, ctx)
            } else {
                build_case::<u32>(*kind, c.get(), r.get(), *delta, ctx)
            }
        }
        CtorCase::FromView { cols, rows, m, mutable, nested, tracked } => {
            if *tracked {
                from_view_case::<Tr>(*cols as usize, *rows as usize, *m, *mutable, *nested, ctx)
            } else {
                from_view_case::<u32>(*cols as usize, *rows as usize, *m, *mutable, *nested, ctx)
            }
        }
        CtorCase::Convert { cols, rows, what, take, tracked } => {
            if *tracked {
                convert_case::<Tr>(*cols as usize, *rows as usize, *what, *take, ctx)
            } else {
                convert_case::<u32>(*cols as usize, *rows as usize, *what, *take, ctx)
            }
        }
        CtorCase::EqHash { cols, rows, variant } => eq_case(*cols as usize, *rows as usize, *variant, ctx),
        CtorCase::CloneFrom { cols, rows, tc, tr, tracked, spare } => {
            if *tracked {
                clone_from_case::<Tr>(*cols as usize, *rows as usize, *tc as usize, *tr as usize, *spare, ctx)
            } else {
                clone_from_case::<u32>(*cols as usize, *rows as usize, *tc as usize, *tr as usize, *spare, ctx)
            }
        }
    }
}

pub struct C20;
impl Prop for C20 {
    type Case = CtorCase;
    const ID: &'static str = "C20";
    fn rule() -> &'static str {
        "constructors: every (cols, rows) from {0..6, 2^32, 2^32+1, 2^62, 2^63, usize::MAX/2, usize::MAX/2+1, usize::MAX-1, usize::MAX}^2 x buffer lengths product + {-1,0,1,7} x {new, init, from_vec, from_box, default, with_capacity, TooDeeView::new, TooDeeViewMut::new} x {u32, drop-tracked element, zero-sized element}; legal <=> (c==0)==(r==0) and c*r does not overflow and the buffer fits (== for owned, >= for views) => exact dimensions and row-major contents (default value / given value / given buffer / slice addresses), otherwise panic (new/init are only given huge dimensions in combinations that must be rejected, so nothing large is ever allocated). From<view> / From<view_mut> of every window embedding (strided, nested) of shapes (0..=4)^2: dimensions and row-major cells of the view, fresh elements, parent untouched. Conversions: Vec / Box<[T]> / into_iter (both ends) / AsRef / AsMut in row-major order; clone equal, independent (fresh elements, mutating either leaves the other). Eq/Hash pairs: identical, same flat data with exchanged / flattened dimensions, one cell changed, different capacity, extra row / column, empty vs emptied. a == b <=> dimensions and cells equal; a == b => equal hashes. Non-trivial = a rejected request, or a strided From<view>, or a pair differing only in shape. Distinct = distinct case. Also: clone_from into every target shape up to 4x4 (same, same cell count but different shape, larger, smaller, empty): equal, independent, drop-balanced; an array with a NaN cell is unequal to itself and its clone; arrays whose cells are equal by a key-only Eq / Hash (and &str cells at different addresses) are equal and hash equal."
    }
    fn bound(_t: Tier) -> String {
        "exhaustive: 15x15 dimension pairs x 4 buffer deltas x 8 constructors x 2 element types; From<view>: shapes (0..=4)^2 x margins {0,1,2}^2x{0,1}^2 x view/view_mut x nested; conversions and Eq/Hash pairs: shapes (0..=5)^2".into()
    }
    fn enumerate(_tier: Tier, emit: &mut dyn FnMut(CtorCase)) {
        let mut dims: Vec<Dim> = (0u8..=6).map(Dim::S).collect();
        dims.extend((0u8..8).map(Dim::Huge));
        for kind in [CtorKind::New, CtorKind::Init, CtorKind::FromVec, CtorKind::FromBox, CtorKind::Default, CtorKind::WithCapacity, CtorKind::ViewNew, CtorKind::ViewMutNew] {
            for &c in &dims {
                for &r in &dims {
                    for delta in [0i8, -1, 1, 7] {
                        if matches!(kind, CtorKind::New | CtorKind::Init | CtorKind::Default) && delta != 0 {
                            continue;
                        }
                        for tracked in [false, true] {
                            emit(CtorCase::Build { kind, c, r, delta, tracked, zst: false });
                        }
                        emit(CtorCase::Build { kind, c, r, delta, tracked: false, zst: true });
                    }
                }
            }
        }
        for cols in 0u8..=4 {
            for rows in 0u8..=4 {
                for l in 0u8..3 {
                    for t in 0u8..3 {
                        for rr in 0u8..2 {
                            for b in 0u8..2 {
                                for mutable in [false, true] {
                                    emit(CtorCase::FromView { cols, rows, m: [l, t, rr, b], mutable, nested: None, tracked: (l + t) % 2 == 0 });
                                    emit(CtorCase::FromView { cols, rows, m: [l, t, rr, b], mutable, nested: Some([b, rr, t % 2, l % 2]), tracked: (l + t) % 2 == 1 });
                                }
                            }
                        }
                    }
                }
            }
        }
        for cols in 0u8..=5 {
            for rows in 0u8..=5 {
                if (cols == 0) != (rows == 0) {
                    continue;
                }
                for what in [Conv::IntoVec, Conv::IntoBox, Conv::IntoIter, Conv::AsRefs, Conv::Clone, Conv::ViewFromViewMut] {
                    for tracked in [false, true] {
                        for take in [(0u8, 0u8), (1, 1), (3, 0), (0, 2)] {
                            if what != Conv::IntoIter && take != (0, 0) {
                                continue;
                            }
                            emit(CtorCase::Convert { cols, rows, what, take, tracked });
                        }
                    }
                }
                // clone_from into every target shape up to 4x4 (same, transposed, same area, larger, smaller, empty)
                if cols <= 4 && rows <= 4 {
                    for tc in 0u8..=4 {
                        for tr in 0u8..=4 {
                            if (tc == 0) != (tr == 0) {
                                continue;
                            }
                            for tracked in [false, true] {
                                emit(CtorCase::CloneFrom { cols, rows, tc, tr, tracked, spare: (tc + tr) % 2 == 0 });
                            }
                        }
                    }
                    emit(CtorCase::CloneFrom { cols, rows, tc: cols * rows, tr: 1, tracked: true, spare: false });
                    emit(CtorCase::CloneFrom { cols, rows, tc: 1, tr: cols * rows, tracked: true, spare: true });
                }
                for variant in [EqVariant::Identical, EqVariant::Transposed, EqVariant::Flattened, EqVariant::DifferentCapacity, EqVariant::ExtraRow, EqVariant::ExtraCol, EqVariant::EmptyVsEmpty, EqVariant::NotReflexive, EqVariant::EqByKey] {
                    emit(CtorCase::EqHash { cols, rows, variant });
                }
                for i in 0..(cols as u16 * rows as u16) {
                    emit(CtorCase::EqHash { cols, rows, variant: EqVariant::OneCellChanged(i) });
                }
            }
        }
    }
    fn strategy(_t: Tier) -> BoxedStrategy<CtorCase> {
        let kind = prop_oneof![Just(CtorKind::New), Just(CtorKind::Init), Just(CtorKind::FromVec), Just(CtorKind::FromBox), Just(CtorKind::ViewNew), Just(CtorKind::ViewMutNew), Just(CtorKind::WithCapacity)];
        let any_dim = || prop_oneof![8 => (0u8..=40).prop_map(Dim::S), 2 => (0u8..8).prop_map(Dim::Huge)];
        let variant = prop_oneof![Just(EqVariant::Identical), Just(EqVariant::Transposed), Just(EqVariant::Flattened), any::<u16>().prop_map(EqVariant::OneCellChanged), Just(EqVariant::DifferentCapacity), Just(EqVariant::ExtraRow), Just(EqVariant::ExtraCol), Just(EqVariant::EmptyVsEmpty), Just(EqVariant::NotReflexive), Just(EqVariant::EqByKey)];
        let conv = prop_oneof![Just(Conv::IntoVec), Just(Conv::IntoBox), Just(Conv::IntoIter), Just(Conv::AsRefs), Just(Conv::Clone), Just(Conv::ViewFromViewMut)];
        prop_oneof![
            4 => (kind, any_dim(), any_dim(), prop_oneof![5 => Just(0i8), 1 => Just(-1i8), 1 => Just(1i8), 1 => Just(7i8), 1 => Just(-3i8)], any::<bool>(), prop::bool::weighted(0.15)).prop_map(|(kind, c, r, delta, tracked, zst)| CtorCase::Build { kind, c, r, delta, tracked, zst }),
            3 => (0u8..=12, 0u8..=12, small_margin(), any::<bool>(), prop::option::weighted(0.3, small_margin()), any::<bool>()).prop_map(|(cols, rows, m, mutable, nested, tracked)| CtorCase::FromView { cols, rows, m, mutable, nested, tracked }),
            2 => (0u8..=12, 0u8..=12, conv, (0u8..8, 0u8..8), any::<bool>()).prop_map(|(cols, rows, what, take, tracked)| CtorCase::Convert { cols, rows, what, take, tracked }),
            3 => (0u8..=12, 0u8..=12, variant).prop_map(|(cols, rows, variant)| CtorCase::EqHash { cols, rows, variant }),
            2 => (0u8..=12, 0u8..=12, 0u8..6, 0u8..=12, 0u8..=12, any::<bool>(), any::<bool>()).prop_map(|(cols, rows, rel, a, b, tracked, spare)| {
                let (tc, tr) = match rel {
                    0 => (cols, rows),
                    1 => (rows, cols),
                    2 => (cols.saturating_mul(rows).min(144), 1),
                    3 => (1, cols.saturating_mul(rows).min(144)),
                    _ => (a, b),
                };
                CtorCase::CloneFrom { cols, rows, tc, tr, tracked, spare }
            }),
        ]
        .boxed()
    }
    fn fuzz_sanitize(k: &mut CtorCase) -> bool {
        match k {
            CtorCase::Build { c, r, delta, .. } => {
                if let Dim::S(x) = c {
                    *x %= 41;
                }
                if let Dim::S(x) = r {
                    *x %= 41;
                }
                *delta = (*delta).clamp(-9, 9);
            }
            CtorCase::FromView { cols, rows, m, nested, .. } => {
                *cols %= 13;
                *rows %= 13;
                m.iter_mut().for_each(|x| *x %= 4);
                if let Some(n) = nested {
                    n.iter_mut().for_each(|x| *x %= 4);
                }
            }
            CtorCase::Convert { cols, rows, .. } | CtorCase::EqHash { cols, rows, .. } => {
                *cols %= 13;
                *rows %= 13;
            }
            CtorCase::CloneFrom { cols, rows, tc, tr, .. } => {
                *cols %= 13;
                *rows %= 13;
                *tc %= 13;
                *tr %= 13;
            }
        }
        true
    }
    fn random_cases(tier: Tier) -> u64 {
        if tier == Tier::Quick { 400_000 } else { 5_000_000 }
    }
    fn execute(k: &CtorCase, ctx: &mut Ctx) -> Verdict {
        exec(k, ctx)
    }
    fn essential_classes() -> &'static [&'static str] {
        &["accepted", "rejected", "strided-from-view", "non-square-from-view", "pair-differing-only-in-shape", "equal-pair", "unequal-pair", "New", "Init", "FromVec", "FromBox", "ViewNew", "ViewMutNew", "Clone", "IntoIter", "CloneFrom", "clone_from-same-cell-count-different-shape", "clone_from-into-larger", "clone_from-into-smaller", "NotReflexive", "EqByKey"]
    }
}
