pub mod history;
pub mod c01;
