pub mod history;
pub mod c01;
pub mod structural;
pub mod fault;
pub mod grid;
pub mod iters;
pub mod access;
