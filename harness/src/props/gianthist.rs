//! Structural histories on giant arrays of `()` (see crate::giant): insert / remove / push / pop
//! of rows and columns, clear, swap_dimensions, clone, capacity calls.  The model is the pair
//! (cols, rows); what is observable on a zero-sized element type is exactly what C01 states
//! about dimensions: `num_cols * num_rows == data().len()`, the zero rule and the iterator
//! lengths -- after every step, including the steps that must be rejected because the index or
//! length is wrong and the steps that cannot succeed because the new cell count does not fit in
//! `usize`.  Used by C01 (all operations), C06 (insertions) and C07 (removals).

use crate::cases::*;
use crate::runner::*;
use crate::{ensure, fail};
use proptest::prelude::*;
use serde::{Deserialize, Serialize};
use toodee::*;

/// how much of a drain is consumed before it is dropped
#[derive(Serialize, Deserialize, Clone, Copy, Debug, PartialEq, Eq, Hash)]
pub struct Eat {
    pub front: u8,
    pub back: u8,
}

#[derive(Serialize, Deserialize, Clone, Copy, Debug, PartialEq, Eq, Hash)]
pub enum GLen {
    /// exactly the length the array expects
    Right,
    /// right + d (d != 0)
    Off(i8),
    Zero,
    Huge(u8),
}

#[derive(Serialize, Deserialize, Clone, Copy, Debug, PartialEq, Eq, Hash)]
pub enum GStep {
    InsertRow(Ix, GLen),
    InsertCol(Ix, GLen),
    PushRow(GLen),
    PushCol(GLen),
    RemoveRow(Ix, Eat),
    RemoveCol(Ix, Eat),
    PopRow(Eat),
    PopCol(Eat),
    SwapDimensions,
    Clear,
    CloneAndCompare,
    CloneFrom(u8),
    Reserve(u8),
    ReserveExact(u8),
    ShrinkToFit,
}

#[derive(Serialize, Deserialize, Clone, Debug, PartialEq, Eq, Hash)]
pub struct GiantHist {
    /// 1-based index into crate::giant::SHAPES
    pub shape: u8,
    pub steps: Vec<GStep>,
}

/// lines longer than this are never actually supplied or drained cell by cell
const WALK: usize = 1 << 17;

pub fn giant_invariant(t: &TooDee<()>, what: &str) -> Verdict {
    let (c, r) = (t.num_cols(), t.num_rows());
    let len = t.data().len();
    ensure!(c.checked_mul(r) == Some(len), "giant/invalid-shape", "{}: num_cols {} * num_rows {} != data().len() {}", what, c, r, len);
    ensure!((c == 0) == (r == 0), "giant/invalid-shape-zero-rule", "{}: size ({},{}) has exactly one zero dimension", what, c, r);
    ensure!(t.size() == (c, r), "giant/size", "{}: size() {:?} != ({},{})", what, t.size(), c, r);
    let (rl, cl) = (catch(|| t.rows().len()), catch(|| t.cells().len()));
    ensure!(rl == Ok(r), "giant/invalid-shape-rows-len", "{}: rows().len() {:?} != num_rows {}", what, rl, r);
    ensure!(cl == Ok(len), "giant/invalid-shape-cells-len", "{}: cells().len() {:?} != {}", what, cl, len);
    if c > 0 {
        for cc in [0, c / 2, c - 1] {
            let l = catch(|| t.col(cc).len());
            ensure!(l == Ok(r), "giant/invalid-shape-col-len", "{}: col({}).len() {:?} != num_rows {}", what, cc, l, r);
        }
    }
    Ok(())
}

fn eat<I: Iterator<Item = ()> + DoubleEndedIterator + ExactSizeIterator>(d: &mut I, e: Eat, line: usize, what: &str) -> Verdict {
    ensure!(d.len() == line, "giant/drain-len", "{}: the drain reports len {} for a line of {} cells", what, d.len(), line);
    let mut left = line;
    for _ in 0..e.front.min(4) {
        let g = d.next();
        ensure!(g.is_some() == (left > 0), "giant/drain-next", "{}: drain.next() is {:?} with {} cells left", what, g, left);
        left = left.saturating_sub(1);
    }
    for _ in 0..e.back.min(4) {
        let g = d.next_back();
        ensure!(g.is_some() == (left > 0), "giant/drain-next-back", "{}: drain.next_back() is {:?} with {} cells left", what, g, left);
        left = left.saturating_sub(1);
    }
    ensure!(d.len() == left, "giant/drain-len", "{}: the drain reports len {} but {} cells are left", what, d.len(), left);
    if e.front == 5 && left <= WALK {
        let n = d.count_remaining();
        ensure!(n == left, "giant/drain-count", "{}: the drain yielded {} more cells but {} were left", what, n, left);
    }
    Ok(())
}

trait CountRemaining {
    fn count_remaining(&mut self) -> usize;
}
impl<I: Iterator<Item = ()>> CountRemaining for I {
    fn count_remaining(&mut self) -> usize {
        let mut n = 0;
        while self.next().is_some() {
            n += 1;
        }
        n
    }
}

/// which steps a property judges (the others are still executed, to move the state on)
#[derive(Clone, Copy, PartialEq, Eq)]
pub enum Focus {
    All,
    Insert,
    Remove,
}

pub fn exec_giant(h: &GiantHist, focus: Focus, ctx: &mut Ctx) -> Verdict {
    let (gc, gr) = crate::giant::shape(h.shape);
    let mut t = crate::giant::owned(gc, gr);
    let (mut c, mut r) = (gc, gr);
    giant_invariant(&t, "freshly built giant array")?;
    let mut rejected = 0;
    let mut overflow = 0;
    let mut applied = 0;
    for (si, st) in h.steps.iter().enumerate() {
        let what = format!("step {} {:?} on a {}x{} array of ()", si, st, c, r);
        let judged = |ins: bool| focus == Focus::All || (ins && focus == Focus::Insert) || (!ins && focus == Focus::Remove);
        let is_ins = matches!(st, GStep::InsertRow(..) | GStep::InsertCol(..) | GStep::PushRow(_) | GStep::PushCol(_));
        let is_rem = matches!(st, GStep::RemoveRow(..) | GStep::RemoveCol(..) | GStep::PopRow(_) | GStep::PopCol(_));
        // is the state after this step this property's business?
        let mine = focus == Focus::All || (is_ins && focus == Focus::Insert) || (is_rem && focus == Focus::Remove);
        match *st {
            GStep::InsertRow(..) | GStep::InsertCol(..) | GStep::PushRow(_) | GStep::PushCol(_) => {
                let (row_axis, ix, gl, push) = match *st {
                    GStep::InsertRow(ix, gl) => (true, ix, gl, false),
                    GStep::InsertCol(ix, gl) => (false, ix, gl, false),
                    GStep::PushRow(gl) => (true, Ix::End, gl, true),
                    GStep::PushCol(gl) => (false, Ix::End, gl, true),
                    _ => unreachable!(),
                };
                let (dim, other) = if row_axis { (r, c) } else { (c, r) };
                let at = match ix {
                    Ix::Past(k) => dim.saturating_add(1 + k as usize),
                    _ => ix.resolve(dim),
                };
                let empty = c == 0;
                let len = match gl {
                    GLen::Right => if empty { 3 } else { other },
                    GLen::Off(d) => if d >= 0 { other.saturating_add(d as usize) } else { other.saturating_sub((-(d as isize)) as usize) },
                    GLen::Zero => 0,
                    GLen::Huge(k) => HUGE[k as usize % HUGE.len()],
                };
                let len_ok = empty || len == other;
                let valid = at <= dim && len_ok;
                // the cell count after the insertion, if it is representable
                let fits = if empty { Some(len) } else { other.checked_mul(dim.wrapping_add(1)).filter(|_| dim < usize::MAX) };
                if valid && fits.is_some() && len > WALK {
                    // would have to write `len` cells one by one
                    continue;
                }
                let items = std::iter::repeat(()).take(len);
                let res = catch(|| match (row_axis, push) {
                    (true, false) => t.insert_row(at, items),
                    (true, true) => t.push_row(items),
                    (false, false) => t.insert_col(at, items),
                    (false, true) => t.push_col(items),
                });
                match (&res, valid, fits) {
                    (Ok(()), true, Some(_)) => {
                        if len > 0 {
                            if empty {
                                if row_axis { c = len; r = 1 } else { c = 1; r = len }
                            } else if row_axis {
                                r += 1
                            } else {
                                c += 1
                            }
                        }
                        applied += 1;
                    }
                    (Err(_), true, None) => overflow += 1,
                    (Err(_), false, _) => rejected += 1,
                    (Ok(()), false, _) if judged(true) => fail!("giant/insert/invalid-accepted", "{}: index {} (limit {}) with {} items (expected {}) must panic but returned; size is now {:?}", what, at, dim, len, other, t.size()),
                    (Ok(()), true, None) if judged(true) => fail!("giant/insert/overflowing-accepted", "{}: the array cannot hold another line ({} * {} + {} cells do not fit in usize) but the call returned; size is now {:?}, data().len() {}", what, c, r, other, t.size(), t.data().len()),
                    (Err(m), true, Some(_)) if judged(true) => fail!("giant/insert/valid-panicked", "{}: index {} with {} items is valid but panicked: {}", what, at, len, m),
                    _ => return Ok(()),
                }
                if res.is_err() {
                    // a rejected or impossible insertion leaves a valid array; this is the last
                    // judged state (the contents after a panic are not specified beyond validity)
                    let inv = giant_invariant(&t, &format!("after the panic of {}", what));
                    if inv.is_err() {
                        return if mine { inv } else { Ok(()) };
                    }
                    c = t.num_cols();
                    r = t.num_rows();
                    continue;
                }
            }
            GStep::RemoveRow(..) | GStep::RemoveCol(..) | GStep::PopRow(_) | GStep::PopCol(_) => {
                let (row_axis, ix, e, pop) = match *st {
                    GStep::RemoveRow(ix, e) => (true, ix, e, false),
                    GStep::RemoveCol(ix, e) => (false, ix, e, false),
                    GStep::PopRow(e) => (true, Ix::Last, e, true),
                    GStep::PopCol(e) => (false, Ix::Last, e, true),
                    _ => unreachable!(),
                };
                let (dim, other) = if row_axis { (r, c) } else { (c, r) };
                let at = match ix {
                    Ix::Past(k) => dim.saturating_add(1 + k as usize),
                    _ => ix.resolve(dim),
                };
                let valid = at < dim;
                if !row_axis && valid && other > WALK {
                    // removing a column moves every row
                    continue;
                }
                let res: Result<Result<bool, Failure>, String> = if pop {
                    if row_axis {
                        catch(|| match t.pop_row() {
                            Some(mut d) => eat(&mut d, e, other, &what).map(|_| true),
                            None => Ok(false),
                        })
                    } else {
                        catch(|| match t.pop_col() {
                            Some(mut d) => eat(&mut d, e, other, &what).map(|_| true),
                            None => Ok(false),
                        })
                    }
                } else if row_axis {
                    catch(|| {
                        let mut d = t.remove_row(at);
                        eat(&mut d, e, other, &what).map(|_| true)
                    })
                } else {
                    catch(|| {
                        let mut d = t.remove_col(at);
                        eat(&mut d, e, other, &what).map(|_| true)
                    })
                };
                match res {
                    Ok(Ok(true)) => {
                        if !valid {
                            if judged(false) {
                                fail!("giant/remove/invalid-accepted", "{}: index {} (limit {}) must panic (pop: return None) but returned a drain; size is now {:?}", what, at, dim, t.size());
                            }
                            return Ok(());
                        }
                        if row_axis { r -= 1 } else { c -= 1 }
                        if r == 0 || c == 0 {
                            c = 0;
                            r = 0;
                        }
                        applied += 1;
                    }
                    Ok(Ok(false)) => {
                        if dim != 0 {
                            if judged(false) {
                                fail!("giant/pop/none-on-non-empty", "{}: pop returned None", what);
                            }
                            return Ok(());
                        }
                    }
                    Ok(Err(f)) => {
                        if judged(false) {
                            return Err(f);
                        }
                        return Ok(());
                    }
                    Err(m) => {
                        if valid || (pop && dim == 0) {
                            if judged(false) {
                                fail!("giant/remove/valid-panicked", "{}: index {} is valid but the removal panicked: {}", what, at, m);
                            }
                            return Ok(());
                        }
                        rejected += 1;
                        let inv = giant_invariant(&t, &format!("after the panic of {}", what));
                        if inv.is_err() {
                            return if mine { inv } else { Ok(()) };
                        }
                        c = t.num_cols();
                        r = t.num_rows();
                        continue;
                    }
                }
            }
            GStep::SwapDimensions => {
                t.swap_dimensions();
                std::mem::swap(&mut c, &mut r);
            }
            GStep::Clear => {
                t.clear();
                c = 0;
                r = 0;
            }
            GStep::CloneAndCompare => {
                let u = catch(|| t.clone());
                match u {
                    Ok(u) => {
                        ensure!(u.size() == (c, r) && u.data().len() == t.data().len() || !mine, "giant/clone", "{}: the clone has size {:?} and {} cells", what, u.size(), u.data().len());
                    }
                    Err(m) if mine => fail!("giant/clone-panicked", "{}: clone() panicked: {}", what, m),
                    Err(_) => return Ok(()),
                }
            }
            GStep::CloneFrom(g) => {
                let (oc, or) = crate::giant::shape(g.max(1));
                let other = crate::giant::owned(oc, or);
                let res = catch(|| t.clone_from(&other));
                ensure!(res.is_ok() || !mine, "giant/clone_from-panicked", "{}: clone_from(a {}x{} array) panicked: {:?}", what, oc, or, res);
                if res.is_err() {
                    return Ok(());
                }
                c = oc;
                r = or;
            }
            GStep::Reserve(k) | GStep::ReserveExact(k) => {
                let n = if k < 16 { k as usize } else { HUGE[k as usize % HUGE.len()] };
                // may panic with "capacity overflow"; either way the array is unchanged
                let _ = if matches!(st, GStep::Reserve(_)) { catch(|| t.reserve(n)) } else { catch(|| t.reserve_exact(n)) };
                let _ = t.capacity();
            }
            GStep::ShrinkToFit => t.shrink_to_fit(),
        }
        // the model after an applied step
        ensure!(t.size() == (c, r) || !mine, "giant/size-after-step", "{}: size is {:?} afterwards, the model says ({},{})", what, t.size(), c, r);
        let inv = giant_invariant(&t, &format!("after {}", what));
        if inv.is_err() || t.size() != (c, r) {
            return if mine { inv } else { Ok(()) };
        }
    }
    ctx.nt();
    ctx.class("giant-unit-grid");
    if rejected > 0 {
        ctx.class("giant/rejected-call");
    }
    if overflow > 0 {
        ctx.class("giant/growth-that-cannot-fit-panics");
    }
    if applied > 0 {
        ctx.class("giant/applied-insert-or-remove");
    }
    Ok(())
}

fn eat_s() -> impl Strategy<Value = Eat> {
    (0u8..=5, 0u8..=3).prop_map(|(front, back)| Eat { front, back })
}
fn glen() -> impl Strategy<Value = GLen> {
    prop_oneof![12 => Just(GLen::Right), 2 => Just(GLen::Off(1)), 2 => Just(GLen::Off(-1)), 1 => Just(GLen::Zero), 2 => (0u8..8).prop_map(GLen::Huge)]
}

pub fn step_strategy(focus: Focus) -> BoxedStrategy<GStep> {
    let ins = prop_oneof![
        3 => (ix_bound(), glen()).prop_map(|(i, l)| GStep::InsertRow(i, l)),
        3 => (ix_bound(), glen()).prop_map(|(i, l)| GStep::InsertCol(i, l)),
        2 => glen().prop_map(GStep::PushRow),
        2 => glen().prop_map(GStep::PushCol),
    ];
    let rem = prop_oneof![
        3 => (ix_elem(), eat_s()).prop_map(|(i, e)| GStep::RemoveRow(i, e)),
        3 => (ix_elem(), eat_s()).prop_map(|(i, e)| GStep::RemoveCol(i, e)),
        2 => eat_s().prop_map(GStep::PopRow),
        2 => eat_s().prop_map(GStep::PopCol),
    ];
    let misc = prop_oneof![
        3 => Just(GStep::SwapDimensions),
        1 => Just(GStep::Clear),
        1 => Just(GStep::CloneAndCompare),
        1 => (1u8..=20).prop_map(GStep::CloneFrom),
        1 => (0u8..24).prop_map(GStep::Reserve),
        1 => (0u8..24).prop_map(GStep::ReserveExact),
        1 => Just(GStep::ShrinkToFit),
    ];
    match focus {
        Focus::All => prop_oneof![4 => ins, 4 => rem, 2 => misc].boxed(),
        Focus::Insert => prop_oneof![8 => ins, 2 => rem, 1 => misc].boxed(),
        Focus::Remove => prop_oneof![2 => ins, 8 => rem, 1 => misc].boxed(),
    }
}

pub fn strategy(focus: Focus) -> BoxedStrategy<GiantHist> {
    (1u8..=crate::giant::SHAPES.len() as u8, prop::collection::vec(step_strategy(focus), 1..8)).prop_map(|(shape, steps)| GiantHist { shape, steps }).boxed()
}

/// every shape x every single step of a fixed alphabet, and every ordered pair of a smaller one
pub fn enumerate(focus: Focus, emit: &mut dyn FnMut(GiantHist)) {
    let ixs = [Ix::In(0), Ix::In(1 << 15), Ix::Last, Ix::End, Ix::Past(0), Ix::Huge(0), Ix::Huge(3)];
    let lens = [GLen::Right, GLen::Off(1), GLen::Off(-1), GLen::Zero, GLen::Huge(0), GLen::Huge(1)];
    let eats = [Eat { front: 0, back: 0 }, Eat { front: 2, back: 1 }, Eat { front: 5, back: 0 }];
    let mut ins = Vec::new();
    let mut rem = Vec::new();
    for ix in ixs {
        for l in lens {
            ins.push(GStep::InsertRow(ix, l));
            ins.push(GStep::InsertCol(ix, l));
        }
        for e in eats {
            rem.push(GStep::RemoveRow(ix, e));
            rem.push(GStep::RemoveCol(ix, e));
        }
    }
    for l in lens {
        ins.push(GStep::PushRow(l));
        ins.push(GStep::PushCol(l));
    }
    for e in eats {
        rem.push(GStep::PopRow(e));
        rem.push(GStep::PopCol(e));
    }
    let misc = [GStep::SwapDimensions, GStep::Clear, GStep::CloneAndCompare, GStep::CloneFrom(3), GStep::Reserve(1), GStep::Reserve(16), GStep::ShrinkToFit];
    let firsts: Vec<GStep> = match focus {
        Focus::All => ins.iter().chain(rem.iter()).chain(misc.iter()).copied().collect(),
        Focus::Insert => ins.iter().chain(misc.iter()).copied().collect(),
        Focus::Remove => rem.iter().chain(misc.iter()).copied().collect(),
    };
    let pre = [GStep::SwapDimensions, GStep::RemoveRow(Ix::In(0), Eat { front: 0, back: 0 }), GStep::PopCol(Eat { front: 1, back: 1 }), GStep::Clear, GStep::PushRow(GLen::Right), GStep::InsertCol(Ix::In(0), GLen::Off(1))];
    for shape in 1..=crate::giant::SHAPES.len() as u8 {
        for &a in &firsts {
            emit(GiantHist { shape, steps: vec![a] });
            for &p in &pre {
                emit(GiantHist { shape, steps: vec![p, a] });
            }
        }
    }
}

pub fn sanitize(h: &mut GiantHist) {
    h.steps.truncate(10);
}
