//! C06 (insert places the line exactly), C07 (remove yields the line in order and closes the
//! gap): single-operation cases, exhaustively enumerated for small shapes plus random larger ones.

use super::history::{drain_script, src, DStep, Src};
use crate::cases::*;
use crate::elem::{self, Bx, Elem, Tr, Zs};
use crate::model::Model;
use crate::runner::*;
use crate::{ensure, fail};
use proptest::prelude::*;
use serde::{Deserialize, Serialize};
use std::collections::{HashSet, VecDeque};
use toodee::*;

#[derive(Serialize, Deserialize, Clone, Copy, Debug, PartialEq, Eq)]
pub enum Axis {
    Row,
    Col,
}

/// Build a cols x rows array of freshly minted elements with exact or spare capacity.
pub fn build<E: Elem>(cols: usize, rows: usize, exact_cap: bool) -> (TooDee<E>, Model) {
    let n = cols * rows;
    let mut v: Vec<E> = if exact_cap { Vec::with_capacity(n) } else { Vec::with_capacity(n + 2 * (cols + rows) + 3) };
    let mut k = 1u8;
    for _ in 0..n {
        k = k.wrapping_mul(7).wrapping_add(1);
        v.push(E::mint(k % 4));
    }
    if exact_cap {
        v.shrink_to_fit();
    }
    let ids: Vec<u64> = v.iter().map(|e| e.id()).collect();
    let (c, r) = if n == 0 { (0, 0) } else { (cols, rows) };
    (TooDee::from_vec(c, r, v), Model::from_flat(c, r, &ids))
}

pub fn ids_of<E: Elem>(t: &TooDee<E>) -> Vec<u64> {
    t.data().iter().map(|e| e.id()).collect()
}

/// The shape invariant of C01 on an arbitrary array (used after rejected / faulted calls).
pub fn shape_invariant<E>(t: &TooDee<E>, what: &str) -> Verdict {
    let (c, r) = (t.num_cols(), t.num_rows());
    let len = t.data().len();
    ensure!(c.checked_mul(r) == Some(len), "invalid-shape", "{}: num_cols {} * num_rows {} != data().len() {}", what, c, r, len);
    ensure!((c == 0) == (r == 0), "invalid-shape-zero-rule", "{}: size ({},{}) has exactly one zero dimension", what, c, r);
    ensure!(t.rows().len() == r, "invalid-shape-rows-len", "{}: rows().len() {} != num_rows {}", what, t.rows().len(), r);
    ensure!(t.cells().len() == len, "invalid-shape-cells-len", "{}: cells().len() {} != {}", what, t.cells().len(), len);
    for cc in 0..c {
        let l = t.col(cc).len();
        ensure!(l == r, "invalid-shape-col-len", "{}: col({}).len() {} != num_rows {}", what, cc, l, r);
    }
    Ok(())
}

/// dims * == len and the zero rule only (what "the result is the original with / without the
/// line" implies; the iterator lengths belong to C01 / C08-C10)
pub fn shape_core<E>(t: &TooDee<E>, what: &str) -> Verdict {
    let (c, r) = (t.num_cols(), t.num_rows());
    let len = t.data().len();
    ensure!(c.checked_mul(r) == Some(len), "invalid-shape", "{}: num_cols {} * num_rows {} != data().len() {}", what, c, r, len);
    ensure!((c == 0) == (r == 0), "invalid-shape-zero-rule", "{}: size ({},{}) has exactly one zero dimension", what, c, r);
    Ok(())
}

/// Every reachable cell is live and no id occurs twice.
pub fn cells_live_distinct<E: Elem>(t: &TooDee<E>, what: &str) -> Verdict {
    if !E::TRACKED {
        return Ok(());
    }
    let mut seen = HashSet::new();
    for e in t.data() {
        ensure!(elem::is_live(e.id()), "reachable-but-dropped", "{}: element {} is reachable through the array but was dropped", what, e.id());
        ensure!(seen.insert(e.id()), "duplicated", "{}: element {} occurs twice in the array", what, e.id());
    }
    Ok(())
}

// ---------------------------------------------------------------------------------------------
// C06

#[derive(Serialize, Deserialize, Clone, Debug, PartialEq)]
pub struct InsCase {
    pub elem: ElemKind,
    pub cols: u8,
    pub rows: u8,
    pub exact_cap: bool,
    pub axis: Axis,
    pub push: bool,
    pub at: u64,
    pub len: u8,
    pub src: Src,
    /// k > 0: the iterator is a lazy `(0..HUGE[k-1]).map(mint)` instead of `len` ready-made items
    /// (only for element types of at least 2 bytes, so that the request cannot be allocated)
    #[serde(default)]
    pub huge_len: u8,
    /// Some: the case is a history on a giant array of `()` instead (props/gianthist.rs)
    #[serde(default)]
    pub giant: Option<super::gianthist::GiantHist>,
}

macro_rules! with_src {
    ($src:expr, $v:expr, |$it:ident| $body:expr) => {
        match $src {
            Src::Vec => {
                let $it = $v;
                $body
            }
            Src::Map => {
                let $it = $v.into_iter().map(|x| x);
                $body
            }
            Src::Deque => {
                let $it = VecDeque::from($v);
                $body
            }
            Src::RevVec => {
                let mut w = $v;
                w.reverse();
                let $it = w.into_iter().rev();
                $body
            }
        }
    };
}

fn run_ins<E: Elem>(k: &InsCase, ctx: &mut Ctx) -> Verdict {
    let (cols, rows) = (k.cols as usize, k.rows as usize);
    let (mut t, mut m) = build::<E>(cols, rows, k.exact_cap);
    let (c, r) = m.size();
    let before = ids_of(&t);
    let len = k.len as usize;
    let dim = if k.axis == Axis::Row { r } else { c };
    let at = if k.push { dim } else { k.at as usize };
    let accept = if k.axis == Axis::Row { m.can_insert_row(at, len) } else { m.can_insert_col(at, len) };
    let mut line: Vec<E> = Vec::with_capacity(len);
    for i in 0..len {
        line.push(E::mint((i % 4) as u8));
    }
    let line_ids: Vec<u64> = line.iter().map(|e| e.id()).collect();
    let tref = &mut t;
    let (axis, push) = (k.axis, k.push);
    let res = with_src!(k.src, line, |it| catch(move || match (axis, push) {
        (Axis::Row, false) => tref.insert_row(at, it),
        (Axis::Row, true) => tref.push_row(it),
        (Axis::Col, false) => tref.insert_col(at, it),
        (Axis::Col, true) => tref.push_col(it),
    }));
    let name = match (axis, push) {
        (Axis::Row, false) => "insert_row",
        (Axis::Row, true) => "push_row",
        (Axis::Col, false) => "insert_col",
        (Axis::Col, true) => "push_col",
    };
    if accept {
        ctx.class("accepted");
        if let Err(msg) = &res {
            fail!(format!("{}/valid-insert-panicked", name), "{}({}, {} items) on a {}x{} array ({}) is valid but panicked: {}", name, at, len, c, r, E::NAME, msg);
        }
        if axis == Axis::Row {
            m.insert_row(at, line_ids.clone());
        } else {
            m.insert_col(at, line_ids.clone());
        }
        shape_core(&t, name).map_err(|f| Failure { sig: format!("{}/{}", name, f.sig), msg: f.msg })?;
        ensure!(t.size() == m.size(), format!("{}/wrong-size", name), "{}({}, {} items) on {}x{}: size {:?}, expected {:?}", name, at, len, c, r, t.size(), m.size());
        if !E::ZST {
            let got = ids_of(&t);
            ensure!(got == m.flat(), format!("{}/wrong-cells", name), "{}({}, {} items) on {}x{} ({}): cells {:?}, expected {:?} (original {:?}, new line {:?})", name, at, len, c, r, E::NAME, got, m.flat(), before, line_ids);
            for y in 0..t.num_rows() {
                for x in 0..t.num_cols() {
                    ensure!(t[(x, y)].id() == m.get(x, y), format!("{}/wrong-cells-indexed", name), "{}: t[({},{})] is {} expected {}", name, x, y, t[(x, y)].id(), m.get(x, y));
                }
            }
        }
        let dd = elem::double_drops();
        ensure!(dd.is_empty(), format!("{}/double-drop", name), "{}: elements dropped twice {:?}", name, dd);
        if E::TRACKED {
            ensure!(elem::live_count() as usize == t.data().len(), format!("{}/live-count", name), "{}: {} live elements but the array holds {}", name, elem::live_count(), t.data().len());
        }
        if E::ZST {
            let (cr, dr) = elem::zs_counts();
            ensure!(cr - dr.min(cr) == t.data().len() as u64 && dr <= cr, format!("{}/zst-balance", name), "{} ({}x{}, {} items): {} zero-sized values created, {} dropped, array holds {}", name, c, r, len, cr, dr, t.data().len());
        }
        if (!m.is_empty() && !before.is_empty() && at > 0 && at < dim) || k.exact_cap {
            ctx.nt();
        }
        if k.exact_cap {
            ctx.class("exact-capacity");
        }
        drop(t);
        let dd = elem::double_drops();
        ensure!(dd.is_empty(), format!("{}/double-drop-at-end", name), "{}: elements dropped twice by the final drop {:?}", name, dd);
        if E::TRACKED {
            ensure!(elem::live_count() == 0, format!("{}/leak", name), "{}: {} elements never dropped", name, elem::live_count());
        }
        if E::ZST {
            let (cr, dr) = elem::zs_counts();
            ensure!(cr == dr, format!("{}/zst-final", name), "{} ({}x{}, {} items): {} zero-sized values created, {} dropped", name, c, r, len, cr, dr);
        }
    } else {
        ctx.class("rejected");
        ctx.nt();
        ensure!(res.is_err(), format!("{}/invalid-insert-accepted", name), "{}({}, {} items) on a {}x{} array ({}) must panic (index > dim or wrong length) but returned; size now {:?}", name, at, len, c, r, E::NAME, t.size());
        shape_invariant(&t, name).map_err(|f| Failure { sig: format!("{}/rejected/{}", name, f.sig), msg: f.msg })?;
        cells_live_distinct(&t, name).map_err(|f| Failure { sig: format!("{}/rejected/{}", name, f.sig), msg: f.msg })?;
        let dd = elem::double_drops();
        ensure!(dd.is_empty(), format!("{}/rejected/double-drop", name), "{}: elements dropped twice {:?}", name, dd);
        drop(t);
        let dd = elem::double_drops();
        ensure!(dd.is_empty(), format!("{}/rejected/double-drop-at-end", name), "{}: elements dropped twice by the final drop {:?}", name, dd);
    }
    ctx.class(E::NAME);
    Ok(())
}

/// An iterator that announces an enormous length: the request can never be allocated, so the
/// call must panic (wrong length, or `capacity overflow` on an empty array) and leave a valid array.
fn run_ins_huge<E: Elem>(k: &InsCase, ctx: &mut Ctx) -> Verdict {
    let (cols, rows) = (k.cols as usize, k.rows as usize);
    let (mut t, m) = build::<E>(cols, rows, k.exact_cap);
    let (c, r) = m.size();
    let n = HUGE[(k.huge_len as usize - 1) % HUGE.len()].max(1 << 62);
    let dim = if k.axis == Axis::Row { r } else { c };
    let at = if k.push { dim } else { k.at as usize };
    let it = (0..n).map(|i| E::mint((i % 4) as u8));
    let (axis, push) = (k.axis, k.push);
    let tref = &mut t;
    let res = catch(move || match (axis, push) {
        (Axis::Row, false) => tref.insert_row(at, it),
        (Axis::Row, true) => tref.push_row(it),
        (Axis::Col, false) => tref.insert_col(at, it),
        (Axis::Col, true) => tref.push_col(it),
    });
    let name = match (axis, push) {
        (Axis::Row, false) => "insert_row",
        (Axis::Row, true) => "push_row",
        (Axis::Col, false) => "insert_col",
        (Axis::Col, true) => "push_col",
    };
    ensure!(res.is_err(), format!("{}/enormous-iterator-accepted", name), "{}({}, an iterator announcing {} items) on a {}x{} array ({}) returned; size now {:?}", name, at, n, c, r, E::NAME, t.size());
    shape_invariant(&t, name).map_err(|f| Failure { sig: format!("{}/enormous-iterator/{}", name, f.sig), msg: format!("after the rejected {}({}, an iterator announcing {} items) on a {}x{} array: {}", name, at, n, c, r, f.msg) })?;
    cells_live_distinct(&t, name).map_err(|f| Failure { sig: format!("{}/enormous-iterator/{}", name, f.sig), msg: f.msg })?;
    let dd = elem::double_drops();
    ensure!(dd.is_empty(), format!("{}/enormous-iterator/double-drop", name), "{}: elements dropped twice {:?}", name, dd);
    drop(t);
    let dd = elem::double_drops();
    ensure!(dd.is_empty(), format!("{}/enormous-iterator/double-drop-at-end", name), "{}: elements dropped twice by the final drop {:?}", name, dd);
    ctx.nt();
    ctx.class("rejected");
    ctx.class(if c == 0 { "enormous-iterator-into-empty-array" } else { "enormous-iterator" });
    ctx.class(E::NAME);
    Ok(())
}

fn run_ins_any<E: Elem>(k: &InsCase, ctx: &mut Ctx) -> Verdict {
    if k.huge_len > 0 && std::mem::size_of::<E>() >= 2 {
        run_ins_huge::<E>(k, ctx)
    } else {
        run_ins::<E>(k, ctx)
    }
}

pub struct C06;
impl Prop for C06 {
    type Case = InsCase;
    const ID: &'static str = "C06";
    fn rule() -> &'static str {
        "single insert_row/push_row/insert_col/push_col on a freshly built array: exhaustive over shapes (0..=5)^2 x index 0..=dim+1 x supplied length 0..=dim+1 x element {u32,Tr,Zs} x {exact,spare} capacity x 4 iterator types, plus random shapes up to 40x40 (thorough: also Bx); oracle = rows-of-cells model + drop ledger. Non-trivial = accepted insert at an interior index of a non-empty array, or exact-capacity growth, or a rejected call. Distinct = distinct case tuple. Also: iterators announcing 2^62..2^64-1 items into empty and non-empty arrays (must panic, valid array afterwards); giant () histories with the insertions judged; element types u128, 3-byte, W40, Nd."
    }
    fn bound(_tier: Tier) -> String {
        "shapes (0..=5)^2, index 0..=dim+1, length 0..=dim+1, 3 element types, exact/spare capacity, 4 iterator kinds, insert+push forms".into()
    }
    fn enumerate(_tier: Tier, emit: &mut dyn FnMut(InsCase)) {
        super::gianthist::enumerate(super::gianthist::Focus::Insert, &mut |g| emit(ins_giant(g)));
        // iterators announcing an enormous length, into empty and non-empty arrays
        for elem in [ElemKind::U32, ElemKind::Tr, ElemKind::U128, ElemKind::B3] {
            for (cols, rows) in [(0u8, 0u8), (1, 1), (3, 2), (2, 5)] {
                for exact_cap in [true, false] {
                    for axis in [Axis::Row, Axis::Col] {
                        for huge_len in 1..=8u8 {
                            let dim = if axis == Axis::Row { rows } else { cols } as u64;
                            for at in [0, dim, dim + 1] {
                                emit(InsCase { elem, cols, rows, exact_cap, axis, push: false, at, len: 0, src: Src::Vec, huge_len, giant: None });
                            }
                            emit(InsCase { elem, cols, rows, exact_cap, axis, push: true, at: 0, len: 0, src: Src::Vec, huge_len, giant: None });
                        }
                    }
                }
            }
        }
        for cols in 0u8..=5 {
            for rows in 0u8..=5 {
                if (cols == 0) != (rows == 0) {
                    continue;
                }
                for axis in [Axis::Row, Axis::Col] {
                    let (dim, other) = if axis == Axis::Row { (rows, cols) } else { (cols, rows) };
                    for elem in [ElemKind::U32, ElemKind::Tr, ElemKind::Zs] {
                        for exact_cap in [true, false] {
                            for srck in [Src::Vec, Src::Map, Src::Deque, Src::RevVec] {
                                for len in 0..=other + 1 {
                                    for at in 0..=dim + 1 {
                                        emit(InsCase { elem, cols, rows, exact_cap, axis, push: false, at: at as u64, len, src: srck, huge_len: 0, giant: None });
                                    }
                                    emit(InsCase { elem, cols, rows, exact_cap, axis, push: true, at: 0, len, src: srck, huge_len: 0, giant: None });
                                }
                                if cols == 0 {
                                    for len in 2..=4u8 {
                                        emit(InsCase { elem, cols, rows, exact_cap, axis, push: false, at: 0, len, src: srck, huge_len: 0, giant: None });
                                    }
                                }
                            }
                        }
                    }
                }
            }
        }
    }
    fn strategy(tier: Tier) -> BoxedStrategy<InsCase> {
        let small = c06_small_strategy(tier);
        let giant = super::gianthist::strategy(super::gianthist::Focus::Insert).prop_map(ins_giant);
        prop_oneof![24 => small, 1 => giant].boxed()
    }
    fn fuzz_sanitize(k: &mut InsCase) -> bool {
        k.cols %= 41;
        k.rows %= 41;
        if k.cols == 0 || k.rows == 0 {
            k.cols = 0;
            k.rows = 0;
        }
        k.len %= 48;
        k.huge_len = if k.huge_len < 240 { 0 } else { k.huge_len - 239 };
        if let Some(g) = &mut k.giant {
            super::gianthist::sanitize(g);
        }
        true
    }
    fn random_cases(tier: Tier) -> u64 {
        if tier == Tier::Quick { 300_000 } else { 4_000_000 }
    }
    fn execute(k: &InsCase, ctx: &mut Ctx) -> Verdict {
        if let Some(g) = &k.giant {
            return super::gianthist::exec_giant(g, super::gianthist::Focus::Insert, ctx);
        }
        match k.elem {
            ElemKind::U32 => run_ins_any::<u32>(k, ctx),
            ElemKind::Tr => run_ins_any::<Tr>(k, ctx),
            ElemKind::Bx => run_ins_any::<Bx>(k, ctx),
            ElemKind::Zs => run_ins_any::<Zs>(k, ctx),
            ElemKind::U128 => run_ins_any::<u128>(k, ctx),
            ElemKind::B3 => run_ins_any::<crate::elem::B3>(k, ctx),
            ElemKind::Nd => run_ins_any::<crate::elem::Nd>(k, ctx),
            ElemKind::W40 => run_ins_any::<crate::elem::W40>(k, ctx),
        }
    }
    fn essential_classes() -> &'static [&'static str] {
        &["accepted", "rejected", "exact-capacity", "Zs", "Tr", "giant-unit-grid", "giant/growth-that-cannot-fit-panics", "giant/rejected-call", "giant/applied-insert-or-remove", "enormous-iterator-into-empty-array", "enormous-iterator"]
    }
}

fn ins_giant(g: super::gianthist::GiantHist) -> InsCase {
    InsCase { elem: ElemKind::U32, cols: 0, rows: 0, exact_cap: false, axis: Axis::Row, push: false, at: 0, len: 0, src: Src::Vec, huge_len: 0, giant: Some(g) }
}
fn rem_giant(g: super::gianthist::GiantHist) -> RemCase {
    RemCase { elem: ElemKind::U32, cols: 0, rows: 0, exact_cap: false, axis: Axis::Row, pop: false, at: 0, script: vec![], giant: Some(g) }
}

fn c06_small_strategy(tier: Tier) -> BoxedStrategy<InsCase> {
    let max = 40u8;
    let elems = if tier == Tier::Quick { vec![ElemKind::U32, ElemKind::Tr, ElemKind::Tr, ElemKind::Zs, ElemKind::Bx, ElemKind::U128, ElemKind::B3, ElemKind::W40, ElemKind::Nd] } else { vec![ElemKind::U32, ElemKind::Tr, ElemKind::Tr, ElemKind::Zs, ElemKind::Bx, ElemKind::Bx, ElemKind::U128, ElemKind::B3, ElemKind::W40, ElemKind::Nd] };
    (proptest::sample::select(elems), prop_oneof![49 => 0..=max, 1 => 0u8..=120], prop_oneof![49 => 0..=max, 1 => 0u8..=120], any::<bool>(), prop_oneof![Just(Axis::Row), Just(Axis::Col)], prop::bool::weighted(0.2), any::<u16>(), prop_oneof![8 => Just(0i8), 1 => Just(1i8), 1 => Just(-1i8), 1 => Just(2i8)], prop_oneof![9 => Just(0u64), 1 => Just(1u64), 1 => Just(2u64), 1 => Just(u64::MAX), 1 => Just(1u64 << 63)], src())
        .prop_map(|(elem, cols, rows, exact_cap, axis, push, frac, dlen, past, srck)| {
            let (cols, rows) = if cols == 0 || rows == 0 { (0, 0) } else { (cols, rows) };
            let (dim, other) = if axis == Axis::Row { (rows, cols) } else { (cols, rows) };
            let at = match past {
                0 => (frac as u64 * (dim as u64 + 1)) >> 16,
                1 | 2 => dim as u64 + past,
                p => p,
            };
            let len = (other as i16 + dlen as i16).max(0) as u8;
            // one case in 25 announces an enormous length instead
            let huge_len = if frac % 25 == 7 { 1 + (frac % 8) as u8 } else { 0 };
            InsCase { elem, cols, rows, exact_cap, axis, push, at, len, src: srck, huge_len, giant: None }
        })
        .boxed()
}

// ---------------------------------------------------------------------------------------------
// C07

#[derive(Serialize, Deserialize, Clone, Debug, PartialEq)]
pub struct RemCase {
    pub elem: ElemKind,
    pub cols: u8,
    pub rows: u8,
    pub exact_cap: bool,
    pub axis: Axis,
    pub pop: bool,
    pub at: u64,
    pub script: Vec<DStep>,
    /// Some: the case is a history on a giant array of `()` instead (props/gianthist.rs)
    #[serde(default)]
    pub giant: Option<super::gianthist::GiantHist>,
}

fn drive_drain<E: Elem, D: Iterator<Item = E> + DoubleEndedIterator + ExactSizeIterator>(d: &mut D, script: &[DStep], want: &mut VecDeque<u64>, held: &mut Vec<E>, name: &str) -> Result<(usize, usize), Failure> {
    let (mut f, mut b) = (0, 0);
    ensure!(d.len() == want.len(), format!("{}/drain-len", name), "{}: fresh drain reports len {} for a line of {}", name, d.len(), want.len());
    for (i, s) in script.iter().enumerate() {
        match s {
            DStep::Next => {
                let g = d.next();
                let w = want.pop_front();
                if !E::ZST {
                    ensure!(g.as_ref().map(|e| e.id()) == w, format!("{}/drain-next", name), "{}: step {} next() yielded {:?}, the removed line has {:?} there", name, i, g.as_ref().map(|e| e.id()), w);
                } else {
                    ensure!(g.is_some() == w.is_some(), format!("{}/drain-next", name), "{}: step {} next() is_some {} expected {}", name, i, g.is_some(), w.is_some());
                }
                if let Some(e) = g {
                    f += 1;
                    held.push(e);
                }
            }
            DStep::NextBack => {
                let g = d.next_back();
                let w = want.pop_back();
                if !E::ZST {
                    ensure!(g.as_ref().map(|e| e.id()) == w, format!("{}/drain-next-back", name), "{}: step {} next_back() yielded {:?}, the removed line has {:?} there", name, i, g.as_ref().map(|e| e.id()), w);
                } else {
                    ensure!(g.is_some() == w.is_some(), format!("{}/drain-next-back", name), "{}: step {} next_back() is_some {} expected {}", name, i, g.is_some(), w.is_some());
                }
                if let Some(e) = g {
                    b += 1;
                    held.push(e);
                }
            }
            DStep::Len => {
                ensure!(d.len() == want.len(), format!("{}/drain-len", name), "{}: step {} len() {} but {} items remain", name, i, d.len(), want.len());
            }
            DStep::SizeHint => {
                ensure!(d.size_hint() == (want.len(), Some(want.len())), format!("{}/drain-size-hint", name), "{}: step {} size_hint() {:?} but {} items remain", name, i, d.size_hint(), want.len());
            }
            DStep::Nth(k) | DStep::NthBack(k) => {
                let k = *k as usize % 4;
                let back = matches!(s, DStep::NthBack(_));
                let g = if back { d.nth_back(k) } else { d.nth(k) };
                // ideal: the k skipped elements leave the sequence (the drain drops them)
                let mut w = None;
                for j in 0..=k {
                    w = if back { want.pop_back() } else { want.pop_front() };
                    if w.is_none() {
                        break;
                    }
                    let _ = j;
                }
                if !E::ZST {
                    ensure!(g.as_ref().map(|e| e.id()) == w, format!("{}/drain-nth", name), "{}: step {} {:?} yielded {:?}, the ideal sequence gives {:?}", name, i, s, g.as_ref().map(|e| e.id()), w);
                } else {
                    ensure!(g.is_some() == w.is_some(), format!("{}/drain-nth", name), "{}: step {} {:?} is_some {} expected {}", name, i, s, g.is_some(), w.is_some());
                }
                ensure!(d.len() == want.len(), format!("{}/drain-len-after-nth", name), "{}: step {} {:?}: len() {} but {} items remain", name, i, s, d.len(), want.len());
                if let Some(e) = g {
                    if back {
                        b += 1;
                    } else {
                        f += 1;
                    }
                    held.push(e);
                }
            }
            DStep::CountRest => {
                let n = d.by_ref().count();
                ensure!(n == want.len(), format!("{}/drain-count", name), "{}: step {} count() {} but {} items remain", name, i, n, want.len());
                want.clear();
            }
            DStep::LastRest => {
                let g = d.by_ref().last();
                let w = want.pop_back();
                want.clear();
                if !E::ZST {
                    ensure!(g.as_ref().map(|e| e.id()) == w, format!("{}/drain-last", name), "{}: step {} last() yielded {:?}, the ideal sequence gives {:?}", name, i, g.as_ref().map(|e| e.id()), w);
                }
                if let Some(e) = g {
                    b += 1;
                    held.push(e);
                }
            }
            DStep::RFoldRest => {
                let got: Vec<u64> = d.by_ref().rev().fold(Vec::new(), |mut a, e| {
                    a.push(e.id());
                    a
                });
                let w: Vec<u64> = want.drain(..).rev().collect();
                ensure!(E::ZST && got.len() == w.len() || got == w, format!("{}/drain-rfold", name), "{}: step {} rev().fold() visited {:?}, the ideal sequence gives {:?}", name, i, got, w);
            }
        }
    }
    Ok((f, b))
}

fn run_rem<E: Elem>(k: &RemCase, ctx: &mut Ctx) -> Verdict {
    let (cols, rows) = (k.cols as usize, k.rows as usize);
    let (mut t, mut m) = build::<E>(cols, rows, k.exact_cap);
    let (c, r) = m.size();
    let before = ids_of(&t);
    let dim = if k.axis == Axis::Row { r } else { c };
    let name = match (k.axis, k.pop) {
        (Axis::Row, false) => "remove_row",
        (Axis::Row, true) => "pop_row",
        (Axis::Col, false) => "remove_col",
        (Axis::Col, true) => "pop_col",
    };
    let at = if k.pop { dim.wrapping_sub(1) } else { k.at as usize };
    let mut held: Vec<E> = Vec::new();
    if k.pop && dim == 0 {
        ctx.class("pop-on-empty");
        ctx.nt();
        let res = catch(|| match k.axis {
            Axis::Row => t.pop_row().is_none(),
            Axis::Col => t.pop_col().is_none(),
        });
        ensure!(res == Ok(true), format!("{}/pop-empty", name), "{} on an empty array must return None, got {:?}", name, res);
        shape_core(&t, name)?;
        return Ok(());
    }
    if at >= dim {
        ctx.class("rejected");
        ctx.nt();
        let res = catch(|| match k.axis {
            Axis::Row => drop(t.remove_row(at)),
            Axis::Col => drop(t.remove_col(at)),
        });
        ensure!(res.is_err(), format!("{}/invalid-remove-accepted", name), "{}({}) on a {}x{} array must panic but returned; size now {:?}", name, at, c, r, t.size());
        shape_core(&t, name).map_err(|f| Failure { sig: format!("{}/rejected/{}", name, f.sig), msg: f.msg })?;
        // the property only says "panics"; what C01 demands of a rejected call (array unchanged)
        // is C01's business. Here: the array must still be valid and hold live, distinct cells.
        cells_live_distinct(&t, name).map_err(|f| Failure { sig: format!("{}/rejected/{}", name, f.sig), msg: f.msg })?;
        let _ = &before;
        return Ok(());
    }
    ctx.class("accepted");
    let line = if k.axis == Axis::Row { m.remove_row(at) } else { m.remove_col(at) };
    let mut want: VecDeque<u64> = line.clone().into();
    let script = &k.script;
    let tref = &mut t;
    let heldref = &mut held;
    let wantref = &mut want;
    let (axis, pop) = (k.axis, k.pop);
    let res = catch(move || -> Result<(usize, usize), Failure> {
        match (axis, pop) {
            (Axis::Row, false) => {
                let mut d = tref.remove_row(at);
                drive_drain(&mut d, script, wantref, heldref, name)
            }
            (Axis::Row, true) => {
                let mut d = tref.pop_row().ok_or_else(|| Failure { sig: format!("{}/none", name), msg: "pop_row on a non-empty array returned None".into() })?;
                drive_drain(&mut d, script, wantref, heldref, name)
            }
            (Axis::Col, false) => {
                let mut d = tref.remove_col(at);
                drive_drain(&mut d, script, wantref, heldref, name)
            }
            (Axis::Col, true) => {
                let mut d = tref.pop_col().ok_or_else(|| Failure { sig: format!("{}/none", name), msg: "pop_col on a non-empty array returned None".into() })?;
                drive_drain(&mut d, script, wantref, heldref, name)
            }
        }
    });
    let (f, b) = match res {
        Ok(r) => r?,
        Err(msg) => fail!(format!("{}/valid-remove-panicked", name), "{}({}) on a {}x{} array ({}) with script {:?} panicked: {}", name, at, c, r, E::NAME, k.script, msg),
    };
    // drain dropped: the array is the original without the line
    shape_core(&t, name).map_err(|f| Failure { sig: format!("{}/{}", name, f.sig), msg: f.msg })?;
    ensure!(t.size() == m.size(), format!("{}/wrong-size", name), "{}({}) on {}x{}: size {:?}, expected {:?}", name, at, c, r, t.size(), m.size());
    if !E::ZST {
        let got = ids_of(&t);
        ensure!(got == m.flat(), format!("{}/wrong-cells", name), "{}({}) on {}x{} ({}, consumed {} front {} back): cells {:?}, expected {:?}", name, at, c, r, E::NAME, f, b, got, m.flat());
    }
    let dd = elem::double_drops();
    ensure!(dd.is_empty(), format!("{}/double-drop", name), "{}: elements dropped twice {:?}", name, dd);
    if E::TRACKED {
        for e in held.iter() {
            ensure!(elem::is_live(e.id()), format!("{}/yielded-item-dropped", name), "{}: yielded element {} was dropped by the drain", name, e.id());
        }
        cells_live_distinct(&t, name).map_err(|f| Failure { sig: format!("{}/{}", name, f.sig), msg: f.msg })?;
        ensure!(elem::live_count() as usize == t.data().len() + held.len(), format!("{}/live-count", name), "{}: {} live elements, array holds {}, caller holds {} (unconsumed part of the line must be dropped by the drain)", name, elem::live_count(), t.data().len(), held.len());
    }
    if E::ZST {
        let (cr, dr) = elem::zs_counts();
        ensure!(dr <= cr && cr - dr == (t.data().len() + held.len()) as u64, format!("{}/zst-balance", name), "{}: created {} dropped {} but {} reachable", name, cr, dr, t.data().len() + held.len());
    }
    let n = line.len();
    if (f > 0 && b > 0 && f + b < n) || (dim > 1 && at > 0 && at + 1 < dim) || dim == 1 {
        ctx.nt();
    }
    if f + b > 0 && f + b < n {
        ctx.class("drain-partial");
    }
    if f > 0 && b > 0 {
        ctx.class("drain-both-ends");
    }
    if dim == 1 {
        ctx.class("last-line");
        ensure!(t.size() == (0, 0), format!("{}/last-line-not-empty", name), "{}: removing the last line left size {:?}", name, t.size());
    }
    if k.exact_cap {
        ctx.class("exact-capacity");
    }
    ctx.class(E::NAME);
    drop(t);
    drop(held);
    let dd = elem::double_drops();
    ensure!(dd.is_empty(), format!("{}/double-drop-at-end", name), "{}: elements dropped twice by the final drop {:?}", name, dd);
    if E::TRACKED {
        ensure!(elem::live_count() == 0, format!("{}/leak", name), "{}: {} elements never dropped", name, elem::live_count());
    }
    Ok(())
}

pub struct C07;
impl Prop for C07 {
    type Case = RemCase;
    const ID: &'static str = "C07";
    fn rule() -> &'static str {
        "single remove_row/pop_row/remove_col/pop_col on a freshly built array with a scripted drain: exhaustive over shapes (1..=6)^2 (+ empty for pop) x index 0..=dim x every (front,back) consumption split x element {u32,Tr,Zs} x {exact,spare} capacity, plus random shapes up to 40x40 with random interleavings of next/next_back/len/size_hint (also Bx); oracle = model line + model remainder + drop ledger. Non-trivial = drain partially consumed from both ends, or interior line of a multi-line array removed, or the last remaining line removed, or a rejected call / pop on empty. Distinct = distinct case tuple. Also: giant () histories with the removals judged; element types u128, 3-byte, W40, Nd."
    }
    fn bound(_tier: Tier) -> String {
        "shapes (1..=6)^2 plus (0,0), index 0..=dim, all (front,back) splits with front+back <= line length, 3 element types, exact/spare capacity, remove+pop forms".into()
    }
    fn enumerate(_tier: Tier, emit: &mut dyn FnMut(RemCase)) {
        super::gianthist::enumerate(super::gianthist::Focus::Remove, &mut |g| emit(rem_giant(g)));
        for elem in [ElemKind::U32, ElemKind::Tr, ElemKind::Zs] {
            for exact_cap in [true, false] {
                for axis in [Axis::Row, Axis::Col] {
                    emit(RemCase { elem, cols: 0, rows: 0, exact_cap, axis, pop: true, at: 0, script: vec![], giant: None });
                    emit(RemCase { elem, cols: 0, rows: 0, exact_cap, axis, pop: false, at: 0, script: vec![], giant: None });
                    for cols in 1u8..=6 {
                        for rows in 1u8..=6 {
                            let (dim, n) = if axis == Axis::Row { (rows, cols) } else { (cols, rows) };
                            for f in 0..=n {
                                for b in 0..=(n - f) {
                                    let mut script = vec![DStep::Len];
                                    script.extend(std::iter::repeat(DStep::Next).take(f as usize));
                                    script.push(DStep::SizeHint);
                                    script.extend(std::iter::repeat(DStep::NextBack).take(b as usize));
                                    script.push(DStep::Len);
                                    for at in 0..dim {
                                        emit(RemCase { elem, cols, rows, exact_cap, axis, pop: false, at: at as u64, script: script.clone(), giant: None });
                                    }
                                    emit(RemCase { elem, cols, rows, exact_cap, axis, pop: true, at: 0, script: script.clone(), giant: None });
                                }
                            }
                            // skipping consumption patterns: the skipped elements must be dropped by the drain
                            for script in [vec![DStep::Nth(1), DStep::Len], vec![DStep::NthBack(1), DStep::Next], vec![DStep::Nth(2), DStep::NthBack(1), DStep::CountRest], vec![DStep::Next, DStep::LastRest], vec![DStep::NthBack(0), DStep::RFoldRest], vec![DStep::Nth(3), DStep::Nth(3)]] {
                                for at in 0..dim {
                                    emit(RemCase { elem, cols, rows, exact_cap, axis, pop: false, at: at as u64, script: script.clone(), giant: None });
                                }
                            }
                            emit(RemCase { elem, cols, rows, exact_cap, axis, pop: false, at: dim as u64, script: vec![], giant: None });
                            emit(RemCase { elem, cols, rows, exact_cap, axis, pop: false, at: dim as u64 + 1, script: vec![], giant: None });
                            emit(RemCase { elem, cols, rows, exact_cap, axis, pop: false, at: u64::MAX, script: vec![], giant: None });
                        }
                    }
                }
            }
        }
    }
    fn strategy(_tier: Tier) -> BoxedStrategy<RemCase> {
        let max = 40u8;
        let giant = super::gianthist::strategy(super::gianthist::Focus::Remove).prop_map(rem_giant);
        let small = (proptest::sample::select(vec![ElemKind::U32, ElemKind::Tr, ElemKind::Tr, ElemKind::Zs, ElemKind::Bx, ElemKind::U128, ElemKind::B3, ElemKind::W40, ElemKind::Nd]), prop_oneof![49 => 0..=max, 1 => 0u8..=120], prop_oneof![49 => 0..=max, 1 => 0u8..=120], any::<bool>(), prop_oneof![Just(Axis::Row), Just(Axis::Col)], prop::bool::weighted(0.2), any::<u16>(), prop_oneof![12 => Just(0u64), 1 => Just(1u64), 1 => Just(u64::MAX), 1 => Just(1u64 << 62)], prop_oneof![3 => drain_script(), 1 => prop::collection::vec(super::history::dstep(), 0..60)])
            .prop_map(|(elem, cols, rows, exact_cap, axis, pop, frac, past, script)| {
                let (cols, rows) = if cols == 0 || rows == 0 { (0, 0) } else { (cols, rows) };
                let dim = if axis == Axis::Row { rows } else { cols } as u64;
                let at = match past {
                    0 => (frac as u64 * dim) >> 16,
                    1 => dim,
                    p => p,
                };
                RemCase { elem, cols, rows, exact_cap, axis, pop, at, script, giant: None }
            });
        prop_oneof![24 => small, 1 => giant].boxed()
    }
    fn fuzz_sanitize(k: &mut RemCase) -> bool {
        k.cols %= 41;
        k.rows %= 41;
        if k.cols == 0 || k.rows == 0 {
            k.cols = 0;
            k.rows = 0;
        }
        if let Some(g) = &mut k.giant {
            super::gianthist::sanitize(g);
        }
        true
    }
    fn random_cases(tier: Tier) -> u64 {
        if tier == Tier::Quick { 300_000 } else { 4_000_000 }
    }
    fn execute(k: &RemCase, ctx: &mut Ctx) -> Verdict {
        if let Some(g) = &k.giant {
            return super::gianthist::exec_giant(g, super::gianthist::Focus::Remove, ctx);
        }
        match k.elem {
            ElemKind::U32 => run_rem::<u32>(k, ctx),
            ElemKind::Tr => run_rem::<Tr>(k, ctx),
            ElemKind::Bx => run_rem::<Bx>(k, ctx),
            ElemKind::Zs => run_rem::<Zs>(k, ctx),
            ElemKind::U128 => run_rem::<u128>(k, ctx),
            ElemKind::B3 => run_rem::<crate::elem::B3>(k, ctx),
            ElemKind::Nd => run_rem::<crate::elem::Nd>(k, ctx),
            ElemKind::W40 => run_rem::<crate::elem::W40>(k, ctx),
        }
    }
    fn essential_classes() -> &'static [&'static str] {
        &["accepted", "rejected", "pop-on-empty", "drain-partial", "drain-both-ends", "last-line", "exact-capacity", "giant-unit-grid", "giant/rejected-call", "giant/applied-insert-or-remove"]
    }
}
