//! One engine for the in-place operations on an owned array, a mutable view (also nested,
//! strided) or a third-party implementor: C13 (swap family, fill), C14 (copy operations),
//! C15 (translate, flips), C16/C17 (sorting), C04 (nothing outside a mutable view changes and
//! the inside matches the same operation on an owned copy).
//!
//! A case fixes the receiver's size and how it is embedded in a parent filled with distinct
//! cells; the operation is applied to the real receiver and to a rows-of-cells model of the
//! window, and the *whole parent* is compared afterwards.

use crate::elem::{Cell, Fat, Kc, K1, K16, K2, K20, K8};
use crate::model::{stable_perm, Model};
use crate::runner::*;
use crate::thin::Thin;
use crate::{ensure, fail};
use proptest::prelude::*;
use serde::{Deserialize, Serialize};
use toodee::*;

#[derive(Serialize, Deserialize, Clone, Copy, Debug, PartialEq, Eq, Hash)]
pub enum RecvKind {
    Owned,
    ViewMut,
    Nested,
    Thin,
    ThinView,
    /// `TooDeeViewMut::new(cols, rows, slice)` over a slice that is `m[3]` rows longer than needed
    SliceMut,
}

/// How the receiver is embedded: margins [left, top, right, bottom] of the outer window in the
/// parent, and (for `Nested`) of the inner window in the outer one.
#[derive(Serialize, Deserialize, Clone, Copy, Debug, PartialEq, Eq, Hash)]
pub struct Recv {
    pub kind: RecvKind,
    pub m: [u8; 4],
    pub m2: [u8; 4],
}
impl Recv {
    pub fn owned() -> Recv {
        Recv { kind: RecvKind::Owned, m: [0; 4], m2: [0; 4] }
    }
    pub fn thin() -> Recv {
        Recv { kind: RecvKind::Thin, m: [0; 4], m2: [0; 4] }
    }
    pub fn view(m: [u8; 4]) -> Recv {
        Recv { kind: RecvKind::ViewMut, m, m2: [0; 4] }
    }
    pub fn thin_view(m: [u8; 4]) -> Recv {
        Recv { kind: RecvKind::ThinView, m, m2: [0; 4] }
    }
    pub fn nested(m: [u8; 4], m2: [u8; 4]) -> Recv {
        Recv { kind: RecvKind::Nested, m, m2 }
    }
    pub fn slice_mut(slack_rows: u8) -> Recv {
        Recv { kind: RecvKind::SliceMut, m: [0, 0, 0, slack_rows], m2: [0; 4] }
    }
    pub fn is_view(&self) -> bool {
        matches!(self.kind, RecvKind::ViewMut | RecvKind::Nested | RecvKind::ThinView | RecvKind::SliceMut)
    }
}

#[derive(Clone, Debug)]
pub struct Layout {
    pub pc: usize,
    pub pr: usize,
    pub s1: (usize, usize),
    pub e1: (usize, usize),
    pub s2: (usize, usize),
    pub e2: (usize, usize),
    /// origin of the receiver in the parent
    pub o: (usize, usize),
    /// effective size of the receiver
    pub c: usize,
    pub r: usize,
}

pub fn layout(cols: usize, rows: usize, recv: &Recv) -> Layout {
    let [l, t, r, b] = recv.m.map(|x| x as usize);
    let [l2, t2, r2, b2] = recv.m2.map(|x| x as usize);
    let (ec, er) = if cols == 0 || rows == 0 { (0, 0) } else { (cols, rows) };
    match recv.kind {
        RecvKind::Owned | RecvKind::Thin => Layout { pc: ec, pr: er, s1: (0, 0), e1: (ec, er), s2: (0, 0), e2: (ec, er), o: (0, 0), c: ec, r: er },
        RecvKind::SliceMut => {
            // the view occupies the first ec*er elements of a buffer of ec*(er+b) elements
            if ec == 0 {
                return Layout { pc: 0, pr: 0, s1: (0, 0), e1: (0, 0), s2: (0, 0), e2: (0, 0), o: (0, 0), c: 0, r: 0 };
            }
            Layout { pc: ec, pr: er + b, s1: (0, 0), e1: (ec, er), s2: (0, 0), e2: (0, 0), o: (0, 0), c: ec, r: er }
        }
        RecvKind::ViewMut | RecvKind::ThinView => {
            let (pc, pr) = (cols + l + r, rows + t + b);
            if pc == 0 || pr == 0 {
                return Layout { pc: 0, pr: 0, s1: (0, 0), e1: (0, 0), s2: (0, 0), e2: (0, 0), o: (0, 0), c: 0, r: 0 };
            }
            Layout { pc, pr, s1: (l, t), e1: (l + cols, t + rows), s2: (0, 0), e2: (0, 0), o: (l, t), c: ec, r: er }
        }
        RecvKind::Nested => {
            let (mc, mr) = (cols + l2 + r2, rows + t2 + b2);
            let (pc, pr) = (mc + l + r, mr + t + b);
            if pc == 0 || pr == 0 {
                return Layout { pc: 0, pr: 0, s1: (0, 0), e1: (0, 0), s2: (0, 0), e2: (0, 0), o: (0, 0), c: 0, r: 0 };
            }
            if mc == 0 || mr == 0 {
                // the middle view is empty: the inner one is a (0,0) window of a (0,0) view
                return Layout { pc, pr, s1: (l, t), e1: (l + mc, t + mr), s2: (0, 0), e2: (0, 0), o: (l, t), c: 0, r: 0 };
            }
            Layout { pc, pr, s1: (l, t), e1: (l + mc, t + mr), s2: (l2, t2), e2: (l2 + cols, t2 + rows), o: (l + l2, t + t2), c: ec, r: er }
        }
    }
}

fn key_of(seed: u32, i: usize, alphabet: u8) -> u16 {
    let mut h = (seed as u64 + 1).wrapping_mul(0x9E37_79B9_7F4A_7C15).wrapping_add((i as u64 + 1).wrapping_mul(0xBF58_476D_1CE4_E5B9));
    h ^= h >> 29;
    h = h.wrapping_mul(0x94D0_49BB_1331_11EB);
    h ^= h >> 32;
    (h % alphabet.max(1) as u64) as u16
}

pub fn kc(raw: u64) -> Kc {
    Kc { key: (raw >> 16) as u16, id: raw as u16 }
}

#[derive(Serialize, Deserialize, Clone, Copy, Debug, PartialEq, Eq)]
pub enum SrcKind {
    Owned,
    View,
    StridedView,
    ViewMut,
}

#[derive(Serialize, Deserialize, Clone, Debug, PartialEq)]
pub enum GOp {
    Swap([u64; 4]),
    SwapRows(u64, u64),
    SwapCols(u64, u64),
    RowPairMut(u64, u64),
    Fill(u8),
    CopyFromSlice { delta: i8, clone: bool },
    CopyFromToodee { src: SrcKind, dc: i8, dr: i8, transposed: bool, clone: bool },
    CopyWithin { src: [u64; 4], dest: [u64; 2] },
    Translate(u64, u64),
    FlipRows,
    FlipCols,
    /// form 0..11; keyfn 0 = key, 1 = reversed, 2 = key % 2 (ignored by the Ord forms)
    Sort { form: u8, line: u64, keyfn: u8 },
    IdxWrite(u64, u64, bool),
    RowsMutWrite { rev: bool, step: u8, skip: u8 },
    ColMutWrite { c: u64, rev: bool, step: u8, skip: u8 },
    CellsMutWrite { rev: bool, step: u8, skip: u8 },
}

#[derive(Serialize, Deserialize, Clone, Copy, Debug, PartialEq, Eq, Default)]
pub enum CellKind {
    #[default]
    Kc,
    K1,
    K20,
    Fat,
    K2,
    K8,
    K16,
}

#[derive(Serialize, Deserialize, Clone, Debug, PartialEq)]
pub struct GridCase {
    /// the cell type (default: the 4-byte key/id pair)
    #[serde(default)]
    pub cell: CellKind,
    pub cols: u8,
    pub rows: u8,
    pub recv: Recv,
    pub keyseed: u32,
    pub alphabet: u8,
    /// keys of the line that a Sort operates on (overrides the seeded keys when non-empty)
    pub line_keys: Vec<u8>,
    pub op: GOp,
    /// non-zero components override `cols` / `rows` (shapes far beyond the exhaustive bounds:
    /// thresholds that depend on the number of lines or on the bytes per line)
    #[serde(default)]
    pub big: (u32, u32),
    /// further operations applied, one after the other, to the same receiver
    #[serde(default)]
    pub more: Vec<GOp>,
    /// spare capacity of the (root) array's buffer: 0 = exact; otherwise an amount chosen from
    /// {1, cols-1, cols, cols+1, 2*cols, cells/2, cells, 3*cells+7} (fast paths that use the
    /// spare capacity as scratch space)
    #[serde(default)]
    pub spare: u8,
    /// non-zero: the keys are drawn from this many distinct values instead of `alphabet`
    /// (cardinality thresholds such as "at most 256 distinct keys"); only for 16-bit-key cells
    #[serde(default)]
    pub wide_alphabet: u16,
}
impl GridCase {
    pub fn dims(&self) -> (usize, usize) {
        (if self.big.0 > 0 { self.big.0 as usize } else { self.cols as usize }, if self.big.1 > 0 { self.big.1 as usize } else { self.rows as usize })
    }
}

fn us(x: u64) -> usize {
    x as usize
}

/// The order a key function induces, as an i32 (the model sorts by this).  Variants 3..7 are
/// realised with key TYPES other than i32 by the key forms (see `by_key!`): a negative i8,
/// `Reverse<u8>`, `Ordering`, a (bool, u8) pair, i64 next to i64::MIN.
fn kf(k: u16, keyfn: u8) -> i32 {
    match keyfn % 8 {
        0 => k as i32,
        1 => -(k as i32),
        2 => (k % 2) as i32,
        3 => -((k & 0x7f) as i32),
        4 => -((k & 0xff) as i32),
        5 => k.cmp(&1) as i32,
        6 => (k % 2) as i32 * 1000 + (k & 0xff) as i32,
        _ => k as i32,
    }
}

/// a key-function sort with the key type selected by `f`
macro_rules! by_key {
    ($x:ident, $m:ident, $l:expr, $f:expr) => {
        match $f % 8 {
            3 => $x.$m($l, |a| -((a.key() & 0x7f) as i8)),
            4 => $x.$m($l, |a| std::cmp::Reverse(a.key() as u8)),
            5 => $x.$m($l, |a| a.key().cmp(&1)),
            6 => $x.$m($l, |a| (a.key() % 2 == 1, a.key() as u8)),
            7 => $x.$m($l, |a| i64::MIN + a.key() as i64),
            _ => $x.$m($l, |a| kf(a.key(), $f)),
        }
    };
}

/// What the model expects of an operation.
enum Expect {
    Reject,
    /// the window must equal this model afterwards
    Exact(Model),
    /// unstable sort: any permutation of whole lines that orders the key line
    Unstable { by_row: bool, line: usize, keyfn: u8 },
}

const FRESH: u64 = 0x8000;

fn fresh(i: usize, seed: u32) -> u64 {
    ((key_of(seed ^ 0x5555, i, 4) as u64) << 16) | (FRESH + i as u64)
}

/// values of the source of a copy operation (row-major)
fn src_values<K: Cell>(n: usize, seed: u32) -> Vec<K> {
    (0..n).map(|i| K::make(fresh(i, seed))).collect()
}

fn src_shape(c: usize, r: usize, dc: i8, dr: i8, transposed: bool) -> (usize, usize) {
    let (mut sc, mut sr) = ((c as i64 + dc as i64).max(0) as usize, (r as i64 + dr as i64).max(0) as usize);
    if transposed {
        std::mem::swap(&mut sc, &mut sr);
    }
    if sc == 0 || sr == 0 {
        (0, 0)
    } else {
        (sc, sr)
    }
}

fn iter_indices(n: usize, rev: bool, skip: u8, step: u8) -> Vec<usize> {
    let base: Vec<usize> = if rev { (0..n).rev().collect() } else { (0..n).collect() };
    base.into_iter().skip(skip as usize).step_by(step.max(1) as usize).collect()
}

fn expect(w: &Model, op: &GOp, seed: u32) -> Expect {
    let (c, r) = w.size();
    let mut m = w.clone();
    match op {
        GOp::Swap([c1, r1, c2, r2]) => {
            let (a, b) = ((us(*c1), us(*r1)), (us(*c2), us(*r2)));
            if a.0 < c && b.0 < c && a.1 < r && b.1 < r {
                m.swap(a, b);
                Expect::Exact(m)
            } else {
                Expect::Reject
            }
        }
        GOp::SwapRows(a, b) => {
            if us(*a) < r && us(*b) < r {
                m.rows.swap(us(*a), us(*b));
                Expect::Exact(m)
            } else {
                Expect::Reject
            }
        }
        GOp::SwapCols(a, b) => {
            if us(*a) < c && us(*b) < c {
                m.swap_cols(us(*a), us(*b));
                Expect::Exact(m)
            } else {
                Expect::Reject
            }
        }
        GOp::RowPairMut(a, b) => {
            if us(*a) < r && us(*b) < r && a != b {
                // the harness swaps the two rows through the returned slices
                m.rows.swap(us(*a), us(*b));
                Expect::Exact(m)
            } else {
                Expect::Reject
            }
        }
        GOp::Fill(k) => {
            for row in m.rows.iter_mut() {
                for v in row.iter_mut() {
                    *v = ((*k as u64) << 16) | 0xFFFF;
                }
            }
            Expect::Exact(m)
        }
        GOp::CopyFromSlice { delta, .. } => {
            // the supplied slice has max(0, cells + delta) elements
            if ((c * r) as i64 + *delta as i64).max(0) as usize != c * r {
                return Expect::Reject;
            }
            let mut i = 0;
            for row in m.rows.iter_mut() {
                for v in row.iter_mut() {
                    *v = fresh(i, seed);
                    i += 1;
                }
            }
            Expect::Exact(m)
        }
        GOp::CopyFromToodee { dc, dr, transposed, .. } => {
            let (sc, sr) = src_shape(c, r, *dc, *dr, *transposed);
            if (sc, sr) != (c, r) {
                return Expect::Reject;
            }
            let mut i = 0;
            for row in m.rows.iter_mut() {
                for v in row.iter_mut() {
                    *v = fresh(i, seed);
                    i += 1;
                }
            }
            Expect::Exact(m)
        }
        GOp::CopyWithin { src, dest } => {
            let [x0, y0, x1, y1] = src.map(|v| v as u128);
            let [dx, dy] = dest.map(|v| v as u128);
            let fits = x0 <= x1 && y0 <= y1 && x1 <= c as u128 && y1 <= r as u128 && dx + (x1 - x0) <= c as u128 && dy + (y1 - y0) <= r as u128;
            if !fits {
                return Expect::Reject;
            }
            let (x0, y0, x1, y1, dx, dy) = (x0 as usize, y0 as usize, x1 as usize, y1 as usize, dx as usize, dy as usize);
            for y in 0..(y1 - y0) {
                for x in 0..(x1 - x0) {
                    m.rows[dy + y][dx + x] = w.rows[y0 + y][x0 + x];
                }
            }
            Expect::Exact(m)
        }
        GOp::Translate(mc, mr) => {
            if us(*mc) <= c && us(*mr) <= r {
                m.translate(us(*mc), us(*mr));
                Expect::Exact(m)
            } else {
                Expect::Reject
            }
        }
        GOp::FlipRows => {
            m.flip_rows();
            Expect::Exact(m)
        }
        GOp::FlipCols => {
            m.flip_cols();
            Expect::Exact(m)
        }
        GOp::Sort { form, line, keyfn } => {
            let form = *form % 11;
            let by_row = form < 6;
            let dim = if by_row { r } else { c };
            let l = us(*line);
            if l >= dim {
                return Expect::Reject;
            }
            let ord_form = matches!(form, 2 | 5 | 8);
            let f = if ord_form { 0 } else { *keyfn };
            let stable = matches!(form, 0 | 1 | 2 | 6 | 7 | 8);
            if !stable {
                return Expect::Unstable { by_row, line: l, keyfn: f };
            }
            if by_row {
                let keys: Vec<i32> = w.rows[l].iter().map(|v| kf((*v >> 16) as u16, f)).collect();
                m.permute_cols(&stable_perm(&keys));
            } else {
                let keys: Vec<i32> = w.col(l).iter().map(|v| kf((*v >> 16) as u16, f)).collect();
                m.permute_rows(&stable_perm(&keys));
            }
            Expect::Exact(m)
        }
        GOp::IdxWrite(cx, ry, _) => {
            if us(*cx) < c && us(*ry) < r {
                m.rows[us(*ry)][us(*cx)] = fresh(0, seed);
                Expect::Exact(m)
            } else {
                Expect::Reject
            }
        }
        GOp::RowsMutWrite { rev, step, skip } => {
            let mut i = 0;
            for y in iter_indices(r, *rev, *skip, *step) {
                for x in 0..c {
                    m.rows[y][x] = fresh(i, seed);
                    i += 1;
                }
            }
            Expect::Exact(m)
        }
        GOp::ColMutWrite { c: cx, rev, step, skip } => {
            if us(*cx) >= c {
                return Expect::Reject;
            }
            let mut i = 0;
            for y in iter_indices(r, *rev, *skip, *step) {
                m.rows[y][us(*cx)] = fresh(i, seed);
                i += 1;
            }
            Expect::Exact(m)
        }
        GOp::CellsMutWrite { rev, step, skip } => {
            let mut i = 0;
            for j in iter_indices(c * r, *rev, *skip, *step) {
                m.rows[j / c][j % c] = fresh(i, seed);
                i += 1;
            }
            Expect::Exact(m)
        }
    }
}

/// Runs the operation on the real receiver. Err = panic message; Ok(Some(note)) = an in-situ
/// oracle failure (e.g. row_pair_mut returned the wrong slices).
/// The operation, written once and instantiated for the three kinds of receiver TYPE (see
/// `Applier`): inside a generic function only trait methods are visible, so an inherent method
/// that a change adds to `TooDee` or `TooDeeViewMut` (and that shadows the trait method for
/// every direct caller) would never be called.
macro_rules! apply_body {
    ($x:ident, $op:ident, $seed:ident, $K:ty) => {{
    let (c, r) = ($x.num_cols(), $x.num_rows());
    catch(|| -> Option<String> {
        match $op {
            GOp::Swap([c1, r1, c2, r2]) => $x.swap((us(*c1), us(*r1)), (us(*c2), us(*r2))),
            GOp::SwapRows(a, b) => $x.swap_rows(us(*a), us(*b)),
            GOp::SwapCols(a, b) => $x.swap_cols(us(*a), us(*b)),
            GOp::RowPairMut(a, b) => {
                let want = if us(*a) < r && us(*b) < r { Some((($x[us(*a)].as_ptr() as usize, $x[us(*a)].len()), ($x[us(*b)].as_ptr() as usize, $x[us(*b)].len()))) } else { None };
                let (ra, rb) = $x.row_pair_mut(us(*a), us(*b));
                let got = ((ra.as_ptr() as usize, ra.len()), (rb.as_ptr() as usize, rb.len()));
                if let Some(w) = want {
                    if w != got {
                        return Some(format!("row_pair_mut({}, {}) returned slices {:?} instead of rows {:?}", a, b, got, w));
                    }
                    if ra.len() != c || rb.len() != c {
                        return Some(format!("row_pair_mut returned slices of length {} / {} for {} columns", ra.len(), rb.len(), c));
                    }
                }
                ra.swap_with_slice(rb);
            }
            GOp::Fill(k) => $x.fill(<$K>::make(((*k as u64) << 16) | 0xFFFF)),
            GOp::CopyFromSlice { delta, clone } => {
                let n = ((c * r) as i64 + *delta as i64).max(0) as usize;
                let src = src_values::<$K>(n, $seed);
                if *clone {
                    $x.clone_from_slice(&src)
                } else {
                    $x.copy_from_slice(&src)
                }
            }
            GOp::CopyFromToodee { src, dc, dr, transposed, clone } => {
                let (sc, sr) = src_shape(c, r, *dc, *dr, *transposed);
                let vals = src_values::<$K>(sc * sr, $seed);
                match src {
                    SrcKind::Owned => {
                        let s = TooDee::from_vec(sc, sr, vals);
                        if *clone {
                            $x.clone_from_toodee(&s)
                        } else {
                            $x.copy_from_toodee(&s)
                        }
                    }
                    SrcKind::View | SrcKind::StridedView | SrcKind::ViewMut => {
                        // embed the source in a bigger parent (margins 1,2 / 2,1) unless plain View
                        let (ml, mt, mr_, mb) = if *src == SrcKind::View || sc == 0 { (0, 0, 0, 0) } else { (1, 2, 2, 1) };
                        let (bc, br) = if sc == 0 { (0, 0) } else { (sc + ml + mr_, sr + mt + mb) };
                        let mut big = TooDee::init(bc, br, <$K>::make((9 << 16) | 0x7777));
                        let mut i = 0;
                        for y in 0..sr {
                            for xx in 0..sc {
                                big[(ml + xx, mt + y)] = vals[i];
                                i += 1;
                            }
                        }
                        if *src == SrcKind::ViewMut {
                            let v = big.view_mut((ml, mt), (ml + sc, mt + sr));
                            if *clone {
                                $x.clone_from_toodee(&v)
                            } else {
                                $x.copy_from_toodee(&v)
                            }
                        } else {
                            let v = big.view((ml, mt), (ml + sc, mt + sr));
                            if *clone {
                                $x.clone_from_toodee(&v)
                            } else {
                                $x.copy_from_toodee(&v)
                            }
                        }
                    }
                }
            }
            GOp::CopyWithin { src, dest } => $x.copy_within(((us(src[0]), us(src[1])), (us(src[2]), us(src[3]))), (us(dest[0]), us(dest[1]))),
            GOp::Translate(mc, mr) => $x.translate_with_wrap((us(*mc), us(*mr))),
            GOp::FlipRows => $x.flip_rows(),
            GOp::FlipCols => $x.flip_cols(),
            GOp::Sort { form, line, keyfn } => {
                let l = us(*line);
                let f = *keyfn;
                match *form % 11 {
                    0 => $x.sort_by_row(l, |a, b| kf(a.key(), f).cmp(&kf(b.key(), f))),
                    1 => by_key!($x, sort_by_row_key, l, f),
                    2 => $x.sort_row_ord::<()>(l),
                    3 => $x.sort_unstable_by_row(l, |a, b| kf(a.key(), f).cmp(&kf(b.key(), f))),
                    4 => by_key!($x, sort_unstable_by_row_key, l, f),
                    5 => $x.sort_unstable_row_ord::<()>(l),
                    6 => $x.sort_by_col(l, |a, b| kf(a.key(), f).cmp(&kf(b.key(), f))),
                    7 => by_key!($x, sort_by_col_key, l, f),
                    8 => $x.sort_col_ord::<()>(l),
                    9 => $x.sort_unstable_by_col(l, |a, b| kf(a.key(), f).cmp(&kf(b.key(), f))),
                    _ => by_key!($x, sort_unstable_by_col_key, l, f),
                }
            }
            GOp::IdxWrite(cx, ry, via_row) => {
                if *via_row {
                    $x[us(*ry)][us(*cx)] = <$K>::make(fresh(0, $seed));
                } else {
                    $x[(us(*cx), us(*ry))] = <$K>::make(fresh(0, $seed));
                }
            }
            GOp::RowsMutWrite { rev, step, skip } => {
                let mut i = 0;
                let mut w = |row: &mut [$K]| {
                    for v in row.iter_mut() {
                        *v = <$K>::make(fresh(i, $seed));
                        i += 1;
                    }
                };
                let st = (*step).max(1) as usize;
                if *rev {
                    $x.rows_mut().rev().skip(*skip as usize).step_by(st).for_each(|row| w(row));
                } else {
                    $x.rows_mut().skip(*skip as usize).step_by(st).for_each(|row| w(row));
                }
            }
            GOp::ColMutWrite { c: cx, rev, step, skip } => {
                let mut i = 0;
                let st = (*step).max(1) as usize;
                let mut w = |v: &mut $K| {
                    *v = <$K>::make(fresh(i, $seed));
                    i += 1;
                };
                if *rev {
                    $x.col_mut(us(*cx)).rev().skip(*skip as usize).step_by(st).for_each(|v| w(v));
                } else {
                    $x.col_mut(us(*cx)).skip(*skip as usize).step_by(st).for_each(|v| w(v));
                }
            }
            GOp::CellsMutWrite { rev, step, skip } => {
                let mut i = 0;
                let st = (*step).max(1) as usize;
                let mut w = |v: &mut $K| {
                    *v = <$K>::make(fresh(i, $seed));
                    i += 1;
                };
                if *rev {
                    $x.cells_mut().rev().skip(*skip as usize).step_by(st).for_each(|v| w(v));
                } else {
                    $x.cells_mut().skip(*skip as usize).step_by(st).for_each(|v| w(v));
                }
            }
        }
        None
    })
    }};
}

/// How an operation reaches the receiver: through the concrete type (inherent methods first,
/// `IntoIterator for &mut X`) or through the traits only (third-party implementors).
pub trait Applier<K: Cell> {
    fn apply_op(&mut self, op: &GOp, seed: u32) -> Result<Option<String>, String>;
}
impl<K: Cell> Applier<K> for TooDee<K> {
    fn apply_op(&mut self, op: &GOp, seed: u32) -> Result<Option<String>, String> {
        let x = self;
        if let GOp::CellsMutWrite { rev: false, step: 1, skip: 0 } = op {
            // `for v in &mut array`
            return catch(|| {
                let mut i = 0;
                for v in &mut *x {
                    *v = K::make(fresh(i, seed));
                    i += 1;
                }
                None
            });
        }
        apply_body!(x, op, seed, K)
    }
}
impl<'a, K: Cell> Applier<K> for TooDeeViewMut<'a, K> {
    fn apply_op(&mut self, op: &GOp, seed: u32) -> Result<Option<String>, String> {
        let x = self;
        if let GOp::CellsMutWrite { rev: false, step: 1, skip: 0 } = op {
            // `for v in &mut view` (the impl ties the borrow to the view's own lifetime, hence a
            // full-size sub-view that lives just for the loop)
            return catch(|| {
                let mut i = 0;
                let (c, r) = (x.num_cols(), x.num_rows());
                let mut sub = x.view_mut((0, 0), (c, r));
                for v in &mut sub {
                    *v = K::make(fresh(i, seed));
                    i += 1;
                }
                None
            });
        }
        apply_body!(x, op, seed, K)
    }
}
impl<'a, K: Cell, X: TooDeeOpsMut<K>> Applier<K> for Thin<'a, K, X> {
    fn apply_op(&mut self, op: &GOp, seed: u32) -> Result<Option<String>, String> {
        let x = self;
        apply_body!(x, op, seed, K)
    }
}

macro_rules! with_recv {
    ($parent:expr, $recv:expr, $lay:expr, |$x:ident| $body:expr) => {
        match $recv.kind {
            RecvKind::Owned => {
                let $x = &mut *$parent;
                $body
            }
            RecvKind::Thin => {
                let mut th = Thin::new(&mut *$parent);
                let $x = &mut th;
                $body
            }
            RecvKind::ViewMut => {
                let mut v = $parent.view_mut($lay.s1, $lay.e1);
                let $x = &mut v;
                $body
            }
            RecvKind::ThinView => {
                let mut v = $parent.view_mut($lay.s1, $lay.e1);
                let mut th = Thin::new(&mut v);
                let $x = &mut th;
                $body
            }
            RecvKind::Nested => {
                let mut v1 = $parent.view_mut($lay.s1, $lay.e1);
                let mut v2 = v1.view_mut($lay.s2, $lay.e2);
                let $x = &mut v2;
                $body
            }
            RecvKind::SliceMut => {
                let mut v = TooDeeViewMut::new($lay.c, $lay.r, $parent.data_mut());
                let $x = &mut v;
                $body
            }
        }
    };
}

pub fn build_parent<K: Cell>(k: &GridCase, lay: &Layout) -> TooDee<K> {
    let n = lay.pc * lay.pr;
    let wide = k.wide_alphabet as u64;
    let mut v: Vec<K> = (0..n)
        .map(|i| {
            // wide alphabets: every value occurs (i % wide), in a scrambled order
            let key = if wide > 0 { (i as u64).wrapping_mul(40503) % wide } else { key_of(k.keyseed, i, k.alphabet) as u64 };
            K::make((key << 16) | (i as u64 & 0xffff))
        })
        .collect();
    // keys of the sort line
    if let GOp::Sort { form, line, .. } = &k.op {
        if !k.line_keys.is_empty() {
            let by_row = *form % 11 < 6;
            let l = us(*line);
            if by_row && l < lay.r {
                for x in 0..lay.c {
                    v[(lay.o.1 + l) * lay.pc + lay.o.0 + x].set_key(k.line_keys[x % k.line_keys.len()] as u16);
                }
            } else if !by_row && l < lay.c {
                for y in 0..lay.r {
                    v[(lay.o.1 + y) * lay.pc + lay.o.0 + l].set_key(k.line_keys[y % k.line_keys.len()] as u16);
                }
            }
        }
    }
    if k.spare > 0 {
        let n = v.len();
        let extra = [1, lay.pc.saturating_sub(1).max(1), lay.pc.max(1), lay.pc + 1, 2 * lay.pc + 1, n / 2 + 1, n + 1, 3 * n + 7][(k.spare as usize - 1) % 8];
        let mut w: Vec<K> = Vec::with_capacity(n + extra);
        w.extend(v);
        v = w;
    } else {
        v.shrink_to_fit();
    }
    TooDee::from_vec(lay.pc, lay.pr, v)
}

fn parent_model<K: Cell>(t: &TooDee<K>) -> Model {
    let flat: Vec<u64> = t.data().iter().map(|k| k.raw()).collect();
    Model::from_flat(t.num_cols(), t.num_rows(), &flat)
}

fn op_name(op: &GOp) -> String {
    match op {
        GOp::Swap(_) => "swap".into(),
        GOp::SwapRows(..) => "swap_rows".into(),
        GOp::SwapCols(..) => "swap_cols".into(),
        GOp::RowPairMut(..) => "row_pair_mut".into(),
        GOp::Fill(_) => "fill".into(),
        GOp::CopyFromSlice { clone, .. } => if *clone { "clone_from_slice" } else { "copy_from_slice" }.into(),
        GOp::CopyFromToodee { clone, .. } => if *clone { "clone_from_toodee" } else { "copy_from_toodee" }.into(),
        GOp::CopyWithin { .. } => "copy_within".into(),
        GOp::Translate(..) => "translate_with_wrap".into(),
        GOp::FlipRows => "flip_rows".into(),
        GOp::FlipCols => "flip_cols".into(),
        GOp::Sort { form, .. } => ["sort_by_row", "sort_by_row_key", "sort_row_ord", "sort_unstable_by_row", "sort_unstable_by_row_key", "sort_unstable_row_ord", "sort_by_col", "sort_by_col_key", "sort_col_ord", "sort_unstable_by_col", "sort_unstable_by_col_key"][(*form % 11) as usize].into(),
        GOp::IdxWrite(_, _, via_row) => if *via_row { "index_mut(row)" } else { "index_mut(coord)" }.into(),
        GOp::RowsMutWrite { .. } => "rows_mut".into(),
        GOp::ColMutWrite { .. } => "col_mut".into(),
        GOp::CellsMutWrite { .. } => "cells_mut".into(),
    }
}

/// Which oracle is being decided (selects the failure wording / what is demanded).
#[derive(Clone, Copy, PartialEq, Eq)]
pub enum Focus {
    /// exact result + panic on invalid arguments
    Op,
    /// C04: outside unchanged + inside equals the same operation on an owned copy
    ViewIsolation,
}

pub struct Outcome {
    pub valid: bool,
    pub changed_inside: bool,
    pub had_tie: bool,
    pub had_inversion: bool,
}

pub fn run(k: &GridCase, focus: Focus, ctx: &mut Ctx) -> Result<Outcome, Failure> {
    ctx.class(match k.cell {
        CellKind::Kc => Kc::NAME,
        CellKind::K1 => K1::NAME,
        CellKind::K20 => K20::NAME,
        CellKind::Fat => Fat::NAME,
        CellKind::K2 => K2::NAME,
        CellKind::K8 => K8::NAME,
        CellKind::K16 => K16::NAME,
    });
    match k.cell {
        CellKind::Kc => run_t::<Kc>(k, focus, ctx),
        CellKind::K1 => run_t::<K1>(k, focus, ctx),
        CellKind::K20 => run_t::<K20>(k, focus, ctx),
        CellKind::Fat => run_t::<Fat>(k, focus, ctx),
        CellKind::K2 => run_t::<K2>(k, focus, ctx),
        CellKind::K8 => run_t::<K8>(k, focus, ctx),
        CellKind::K16 => run_t::<K16>(k, focus, ctx),
    }
}

/// the model under the projection of the cell type (what `make(x).raw()` keeps of `x`)
fn project<K: Cell>(m: &Model) -> Model {
    let mut p = m.clone();
    for row in p.rows.iter_mut() {
        for v in row.iter_mut() {
            *v = K::make(*v).raw();
        }
    }
    p
}

fn run_t<K: Cell>(k: &GridCase, focus: Focus, ctx: &mut Ctx) -> Result<Outcome, Failure> {
    let lay = layout(k.dims().0, k.dims().1, &k.recv);
    let mut parent = build_parent::<K>(k, &lay);
    let mut out = step_t::<K>(k, &k.op, 0, &mut parent, &lay, focus, ctx)?;
    // further operations on the same receiver (each judged like the first; stops at a rejected one)
    if out.valid && !k.more.is_empty() {
        ctx.class("sequence-of-operations");
        for (i, op) in k.more.iter().enumerate() {
            let o = step_t::<K>(k, op, i + 1, &mut parent, &lay, focus, ctx)?;
            if !o.valid {
                break;
            }
            out.changed_inside |= o.changed_inside;
        }
    }
    Ok(out)
}

fn step_t<K: Cell>(k: &GridCase, gop: &GOp, step: usize, parent: &mut TooDee<K>, lay: &Layout, focus: Focus, ctx: &mut Ctx) -> Result<Outcome, Failure> {
    let lay = lay.clone();
    let pm = parent_model(&*parent);
    let (c, r) = (lay.c, lay.r);
    let w = if c > 0 { pm.window(lay.o, (lay.o.0 + c, lay.o.1 + r)) } else { Model::new() };
    let name = op_name(gop);
    let exp = expect(&w, gop, k.keyseed.wrapping_add(step as u32 * 7919));
    let seed = k.keyseed.wrapping_add(step as u32 * 7919);
    let res = with_recv!(&mut *parent, k.recv, lay, |x| {
        if x.num_cols() != c || x.num_rows() != r {
            Err(format!("receiver has size ({},{}) instead of ({},{})", x.num_cols(), x.num_rows(), c, r))
        } else {
            x.apply_op(gop, seed)
        }
    });
    let after = parent_model(&*parent);
    let desc = || format!("{}{} {:?} on a {}x{} {:?} receiver (parent {}x{}, origin {:?})", if step > 0 { format!("[operation {} of a sequence] ", step + 1) } else { String::new() }, name, gop, c, r, k.recv.kind, lay.pc, lay.pr, lay.o);
    let mut out = Outcome { valid: true, changed_inside: false, had_tie: false, had_inversion: false };
    match exp {
        Expect::Reject => {
            out.valid = false;
            if focus == Focus::Op {
                ensure!(res.is_err(), format!("{}/invalid-accepted", name), "{}: must panic (argument out of range / sizes differ) but returned", desc());
            } else if k.recv.is_view() {
                // C04: whatever a call with bad arguments does (it should panic), the cells
                // outside the view's rectangle stay as they were
                for y in 0..lay.pr {
                    for x in 0..lay.pc {
                        let is_in = x >= lay.o.0 && x < lay.o.0 + c && y >= lay.o.1 && y < lay.o.1 + r;
                        if !is_in && after.rows[y][x] != pm.rows[y][x] {
                            fail!(format!("{}/outside-touched-by-invalid-call", name), "{}: a call with invalid arguments ({}) changed parent cell ({},{}) outside the receiver from {:#x} to {:#x}", desc(), if res.is_err() { "it panicked" } else { "it did not even panic" }, x, y, pm.rows[y][x], after.rows[y][x]);
                        }
                    }
                }
            }
            return Ok(out);
        }
        Expect::Exact(wm) => {
            let wm = project::<K>(&wm);
            match &res {
                Err(msg) => fail!(format!("{}/valid-panicked", name), "{}: valid call panicked: {}", desc(), msg),
                Ok(Some(note)) => fail!(format!("{}/wrong-result", name), "{}: {}", desc(), note),
                Ok(None) => {}
            }
            let mut want = pm.clone();
            if c > 0 {
                want.put_window(lay.o, &wm);
            }
            if after != want {
                // classify: outside touched or inside wrong
                let mut outside = None;
                let mut inside = None;
                for y in 0..lay.pr {
                    for x in 0..lay.pc {
                        if after.rows[y][x] != want.rows[y][x] {
                            let is_in = x >= lay.o.0 && x < lay.o.0 + c && y >= lay.o.1 && y < lay.o.1 + r;
                            if is_in && inside.is_none() {
                                inside = Some((x - lay.o.0, y - lay.o.1, after.rows[y][x], want.rows[y][x]));
                            }
                            if !is_in && outside.is_none() {
                                outside = Some((x, y, after.rows[y][x], want.rows[y][x]));
                            }
                        }
                    }
                }
                if let Some((x, y, g, wv)) = outside {
                    fail!(format!("{}/outside-touched", name), "{}: parent cell ({},{}) outside the receiver changed from {:#x} to {:#x}", desc(), x, y, wv, g);
                }
                if let Some((x, y, g, wv)) = inside {
                    fail!(format!("{}/wrong-cells", name), "{}: cell ({},{}) is {:#x}, expected {:#x}; window before {:?}, after {:?}, expected {:?}", desc(), x, y, g, wv, if c * r <= 400 { w.rows.clone() } else { vec![] }, if c > 0 && c * r <= 400 { after.window(lay.o, (lay.o.0 + c, lay.o.1 + r)).rows } else { vec![] }, if c * r <= 400 { wm.rows.clone() } else { vec![] });
                }
            }
            out.changed_inside = wm != w;
        }
        Expect::Unstable { by_row, line, keyfn } => {
            match &res {
                Err(msg) => fail!(format!("{}/valid-panicked", name), "{}: valid call panicked: {}", desc(), msg),
                Ok(_) => {}
            }
            // outside unchanged
            let got_w = after.window(lay.o, (lay.o.0 + c, lay.o.1 + r));
            let mut want = pm.clone();
            want.put_window(lay.o, &got_w);
            ensure!(after == want, format!("{}/outside-touched", name), "{}: cells outside the receiver changed", desc());
            // (1) ordered, (2) whole lines, each exactly once
            let key_line: Vec<u64> = if by_row { got_w.rows[line].clone() } else { got_w.col(line) };
            let mapped: Vec<i32> = key_line.iter().map(|v| kf((*v >> 16) as u16, keyfn)).collect();
            ensure!(mapped.windows(2).all(|p| p[0] <= p[1]), format!("{}/not-ordered", name), "{}: line {} is not ordered afterwards: keys {:?}", desc(), line, &mapped[..mapped.len().min(200)]);
            let n = if by_row { c } else { r };
            let line_of = |m: &Model, j: usize| -> Vec<u64> { if by_row { m.col(j) } else { m.rows[j].clone() } };
            let mut pool: std::collections::HashMap<Vec<u64>, usize> = std::collections::HashMap::new();
            for i in 0..n {
                *pool.entry(line_of(&w, i)).or_default() += 1;
            }
            for j in 0..n {
                let gl = line_of(&got_w, j);
                match pool.get_mut(&gl).filter(|cnt| **cnt > 0) {
                    Some(cnt) => *cnt -= 1,
                    None => fail!(format!("{}/not-a-permutation-of-whole-lines", name), "{}: result {} {} = {:?} is not one of the original {}s (or appears twice)", desc(), if by_row { "column" } else { "row" }, j, gl, if by_row { "column" } else { "row" }),
                }
            }
            out.changed_inside = got_w != w;
        }
    }
    // tie / inversion classification for sorts
    if let GOp::Sort { form, line, keyfn } = gop {
        let by_row = *form % 11 < 6;
        let l = us(*line);
        let f = if matches!(*form % 11, 2 | 5 | 8) { 0 } else { *keyfn };
        let keys: Vec<i32> = if by_row { w.rows[l].iter().map(|v| kf((*v >> 16) as u16, f)).collect() } else { w.col(l).iter().map(|v| kf((*v >> 16) as u16, f)).collect() };
        let mut sorted = keys.clone();
        sorted.sort();
        out.had_tie = sorted.windows(2).any(|p| p[0] == p[1]);
        out.had_inversion = keys.windows(2).any(|p| p[0] > p[1]);
    }
    // C04 differential: the same operation on an owned copy of the window
    if focus == Focus::ViewIsolation && k.recv.is_view() {
        let mut flat: Vec<K> = Vec::with_capacity(c * r + if k.spare > 0 { [1, c.saturating_sub(1).max(1), c.max(1), c + 1, 2 * c + 1, c * r / 2 + 1, c * r + 1, 3 * c * r + 7][(k.spare as usize - 1) % 8] } else { 0 });
        flat.extend(w.flat().into_iter().map(K::make));
        let mut owned = TooDee::from_vec(c, r, flat);
        let r2 = owned.apply_op(gop, seed);
        ensure!(matches!(r2, Ok(None)), "differential/owned-copy-failed", "{}: the same operation on an owned copy failed: {:?}", desc(), r2);
        let om = parent_model(&owned);
        let got_w = if c > 0 { after.window(lay.o, (lay.o.0 + c, lay.o.1 + r)) } else { Model::new() };
        let unstable = matches!(gop, GOp::Sort { form, .. } if matches!(*form % 11, 3 | 4 | 5 | 9 | 10));
        if !(unstable && out.had_tie) {
            ensure!(om == got_w, format!("{}/differs-from-owned", name), "{}: inside the view the result is {:?} but the same operation on an owned copy gives {:?}", desc(), if c * r <= 400 { got_w.rows.clone() } else { vec![] }, if c * r <= 400 { om.rows.clone() } else { vec![] });
        }
    }
    let _ = ctx;
    Ok(out)
}

/// The same operation on an array of a zero-sized element type (owned, and through the trait
/// defaults): only panic / no panic and the shape are observable.
pub fn zst_companion(c: usize, r: usize, op: &GOp) -> Verdict {
    fn go<X: TooDeeOpsMut<()> + CopyOps<()>>(x: &mut X, c: usize, r: usize, op: &GOp, who: &str) -> Verdict {
        let (valid, res): (bool, Result<(), String>) = match op {
            GOp::Swap([c1, r1, c2, r2]) => (us(*c1) < c && us(*c2) < c && us(*r1) < r && us(*r2) < r, catch(|| x.swap((us(*c1), us(*r1)), (us(*c2), us(*r2))))),
            GOp::SwapRows(a, b) => (us(*a) < r && us(*b) < r, catch(|| x.swap_rows(us(*a), us(*b)))),
            GOp::SwapCols(a, b) => (us(*a) < c && us(*b) < c, catch(|| x.swap_cols(us(*a), us(*b)))),
            GOp::RowPairMut(a, b) => (us(*a) < r && us(*b) < r && a != b, catch(|| {
                let (p, q) = x.row_pair_mut(us(*a), us(*b));
                assert!(p.len() == c && q.len() == c, "row_pair_mut slices have the wrong length");
            })),
            GOp::Fill(_) => (true, catch(|| x.fill(()))),
            GOp::Translate(mc, mr) => (us(*mc) <= c && us(*mr) <= r, catch(|| x.translate_with_wrap((us(*mc), us(*mr))))),
            GOp::FlipRows => (true, catch(|| x.flip_rows())),
            GOp::FlipCols => (true, catch(|| x.flip_cols())),
            GOp::CopyWithin { src, dest } => {
                let [x0, y0, x1, y1] = src.map(|v| v as u128);
                let [dx, dy] = dest.map(|v| v as u128);
                let fits = x0 <= x1 && y0 <= y1 && x1 <= c as u128 && y1 <= r as u128 && dx + (x1 - x0) <= c as u128 && dy + (y1 - y0) <= r as u128;
                (fits, catch(|| x.copy_within(((us(src[0]), us(src[1])), (us(src[2]), us(src[3]))), (us(dest[0]), us(dest[1])))))
            }
            _ => return Ok(()),
        };
        if valid {
            ensure!(res.is_ok(), format!("zst/{}/valid-panicked", who), "{:?} on a {}x{} {} of a zero-sized element type is valid but panicked: {:?}", op, c, r, who, res);
        } else {
            ensure!(res.is_err(), format!("zst/{}/invalid-accepted", who), "{:?} on a {}x{} {} of a zero-sized element type must panic but returned", op, c, r, who);
        }
        ensure!(x.num_cols() == c && x.num_rows() == r, format!("zst/{}/shape-changed", who), "{:?} changed the shape of a {}x{} {} of a zero-sized element type", op, c, r, who);
        Ok(())
    }
    let mut z: TooDee<()> = if c == 0 { TooDee::default() } else { TooDee::init(c, r, ()) };
    go(&mut z, c, r, op, "array")?;
    let mut th = Thin::new(&mut z);
    go(&mut th, c, r, op, "third-party implementor")?;
    if c > 0 {
        let mut big: TooDee<()> = TooDee::init(c + 2, r + 1, ());
        let mut v = big.view_mut((1, 1), (c + 1, r + 1));
        go(&mut v, c, r, op, "mutable view")?;
    }
    Ok(())
}

// ---------------------------------------------------------------------------------------------
// strategies shared by the properties

pub fn small_margin() -> impl Strategy<Value = [u8; 4]> {
    prop_oneof![
        3 => Just([1, 1, 1, 1]),
        1 => Just([0, 0, 2, 0]),
        1 => Just([2, 0, 0, 0]),
        1 => Just([0, 1, 0, 0]),
        1 => Just([0, 0, 0, 2]),
        1 => Just([0, 0, 0, 0]),
        3 => (0u8..4, 0u8..4, 0u8..4, 0u8..4).prop_map(|(a, b, c, d)| [a, b, c, d]),
    ]
}
pub fn recv_any() -> impl Strategy<Value = Recv> {
    prop_oneof![
        1 => (0u8..4).prop_map(Recv::slice_mut),
        3 => Just(Recv::owned()),
        2 => Just(Recv::thin()),
        4 => small_margin().prop_map(Recv::view),
        2 => small_margin().prop_map(Recv::thin_view),
        2 => (small_margin(), small_margin()).prop_map(|(a, b)| Recv::nested(a, b)),
    ]
}
pub fn recv_view() -> impl Strategy<Value = Recv> {
    prop_oneof![
        1 => (0u8..4).prop_map(Recv::slice_mut),
        5 => small_margin().prop_map(Recv::view),
        2 => small_margin().prop_map(Recv::thin_view),
        3 => (small_margin(), small_margin()).prop_map(|(a, b)| Recv::nested(a, b)),
    ]
}
/// a dimension: usually 0..=max, in 3% of the cases up to 200 (size-dependent fast paths, if a
/// change introduces one, need shapes well beyond the exhaustive bounds)
pub fn big_dim(max: u8) -> impl Strategy<Value = u8> {
    prop_oneof![97 => 0..=max, 3 => 0u8..=200]
}

/// index relative to a dimension: mostly in range, sometimes == dim, dim+1, huge
pub fn idx(dim: u8) -> impl Strategy<Value = u64> {
    let d = dim as u64;
    prop_oneof![
        80 => (0..=d.max(1) - 1),
        6 => Just(d),
        4 => Just(d + 1),
        3 => Just(u64::MAX),
        2 => Just(u64::MAX / 2 + 1),
        2 => Just(1u64 << 32),
    ]
}
pub fn bound(dim: u8) -> impl Strategy<Value = u64> {
    let d = dim as u64;
    prop_oneof![
        85 => (0..=d),
        6 => Just(d + 1),
        3 => Just(u64::MAX),
        3 => Just(u64::MAX - 1),
        3 => Just(u64::MAX / 2 + 1),
    ]
}

/// Values whose product with `stride` (or stride +- 1) wraps around 2^64 back into a small
/// number: an index check that is folded into the multiplication lets exactly these through.
pub fn wrap_values(stride: usize) -> Vec<u64> {
    let mut v = Vec::new();
    for s in [stride.max(1) as u128, stride as u128 + 1] {
        let q = ((1u128 << 64) + s - 1) / s;
        for (j, d) in [(1u128, 0u128), (1, 1), (2, 0), (1, 2)] {
            v.push(((q * j + d) & u64::MAX as u128) as u64);
        }
        v.push((u64::MAX as u128 / s + 1) as u64);
    }
    v.sort();
    v.dedup();
    v
}

/// Replace one index argument of the operation by a wrap-provoking value for the receiver's stride.
pub fn wrapify(mut k: GridCase, sel: u16) -> GridCase {
    let lay = layout(k.dims().0, k.dims().1, &k.recv);
    let vals = wrap_values(lay.pc);
    let v = vals[(sel as usize >> 4) % vals.len()];
    let which = sel as usize & 15;
    match &mut k.op {
        GOp::Swap(a) => a[which % 4] = v,
        GOp::SwapRows(a, b) | GOp::SwapCols(a, b) | GOp::RowPairMut(a, b) | GOp::Translate(a, b) => {
            if which % 2 == 0 { *a = v } else { *b = v }
        }
        GOp::IdxWrite(a, b, _) => {
            if which % 3 == 0 { *a = v } else { *b = v }
        }
        GOp::ColMutWrite { c, .. } => *c = v,
        GOp::Sort { line, .. } => *line = v,
        GOp::CopyWithin { src, dest } => {
            if which % 6 < 4 { src[which % 6] = v } else { dest[which % 6 - 4] = v }
        }
        _ => {}
    }
    k
}

/// 4% of the cases get one wrap-provoking index
pub fn with_wraps(s: BoxedStrategy<GridCase>) -> BoxedStrategy<GridCase> {
    with_big(with_cells((s, any::<u16>(), prop::bool::weighted(0.04)).prop_map(|(k, sel, w)| if w { wrapify(k, sel) } else { k }).boxed()))
}

/// every index-taking operation with each wrap-provoking value in each argument position
pub fn enum_wraps(cols: u8, rows: u8, recv: Recv, keep: &dyn Fn(&GOp) -> bool, emit: &mut dyn FnMut(GridCase)) {
    let lay = layout(cols as usize, rows as usize, &recv);
    let (c, r) = (lay.c as u64, lay.r as u64);
    if c == 0 {
        return;
    }
    for v in wrap_values(lay.pc) {
        let mut ops = vec![
            GOp::Swap([v, 0, 0, 0]), GOp::Swap([0, v, 0, 0]), GOp::Swap([0, 0, v, r - 1]), GOp::Swap([c - 1, 0, 0, v]),
            GOp::SwapRows(v, 0), GOp::SwapRows(0, v), GOp::SwapRows(r - 1, v), GOp::SwapCols(v, 0), GOp::SwapCols(c - 1, v),
            GOp::RowPairMut(v, 0), GOp::RowPairMut(0, v),
            GOp::IdxWrite(v, 0, false), GOp::IdxWrite(0, v, false), GOp::IdxWrite(c - 1, v, false), GOp::IdxWrite(v, r - 1, true), GOp::IdxWrite(c - 1, v, true),
            GOp::ColMutWrite { c: v, rev: false, step: 1, skip: 0 },
            GOp::Translate(v, 0), GOp::Translate(0, v),
            GOp::CopyWithin { src: [0, 0, 1, 1], dest: [v, 0] }, GOp::CopyWithin { src: [0, 0, 1, 1], dest: [0, v] }, GOp::CopyWithin { src: [0, v, 1, v], dest: [0, 0] }, GOp::CopyWithin { src: [0, 0, 1, v], dest: [0, 0] },
        ];
        for form in 0..11u8 {
            ops.push(GOp::Sort { form, line: v, keyfn: 0 });
        }
        for op in ops {
            if keep(&op) {
                emit(GridCase { cell: CellKind::Kc, cols, rows, recv, keyseed: 77, alphabet: 3, line_keys: vec![], op, big: (0, 0), more: vec![], spare: 0, wide_alphabet: 0 });
            }
        }
    }
}

/// cases the Miri batch leaves to the native substrates
pub fn heavy(k: &GridCase) -> bool {
    let lay = layout(k.dims().0, k.dims().1, &k.recv);
    k.big != (0, 0) || lay.pc * lay.pr > 2500 || (k.cell == CellKind::Fat && lay.pc * lay.pr > 36)
}

/// Fat cells are 4800 bytes each: only for small parents.
fn fat_ok(k: &GridCase) -> bool {
    let lay = layout(k.dims().0, k.dims().1, &k.recv);
    lay.pc * lay.pr <= 400
}

/// 12% of the cases run on another cell type: 1 byte, 20 bytes, 4800 bytes
pub fn with_cells(s: BoxedStrategy<GridCase>) -> BoxedStrategy<GridCase> {
    let s = (s, prop_oneof![76 => Just(CellKind::Kc), 4 => Just(CellKind::K1), 4 => Just(CellKind::K2), 5 => Just(CellKind::K8), 4 => Just(CellKind::K16), 5 => Just(CellKind::K20), 2 => Just(CellKind::Fat)])
        .prop_map(|(mut k, cell)| {
            k.cell = if cell == CellKind::Fat && !fat_ok(&k) { CellKind::K20 } else { cell };
            k
        })
        .boxed();
    // spare capacity of the root buffer: exact in 55 % of the cases
    let s = (s, prop_oneof![11 => Just(0u8), 9 => 1u8..=8])
        .prop_map(|(mut k, spare)| {
            k.spare = spare;
            k
        });
    s.boxed()
}

/// lengths around the thresholds a size-dependent code path is likely to use
pub const BIG_DIMS: [u32; 12] = [300, 1025, 4096, 4097, 8192, 8200, 16384, 32768, 32769, 65536, 65538, 70001];

/// 0.15% of the cases get one enormous dimension (the other one at most 3)
pub fn with_big(s: BoxedStrategy<GridCase>) -> BoxedStrategy<GridCase> {
    (s, prop::bool::weighted(0.0015), 0usize..BIG_DIMS.len(), any::<bool>(), 1u8..=3)
        .prop_map(|(mut k, big, i, wide, other)| {
            if big && matches!(k.cell, CellKind::Kc | CellKind::K1) && matches!(k.recv.kind, RecvKind::Owned | RecvKind::ViewMut | RecvKind::Thin) {
                let (oc, or) = (k.cols.max(1) as u64, k.rows.max(1) as u64);
                if wide {
                    k.big = (BIG_DIMS[i], 0);
                    k.rows = other;
                } else {
                    k.big = (0, BIG_DIMS[i]);
                    k.cols = other;
                }
                // stretch the operation's coordinates along the enlarged axis (valid ones stay valid)
                let (nc, nr) = (k.dims().0 as u64, k.dims().1 as u64);
                let sx = |v: &mut u64| if *v <= oc { *v = (*v * nc / oc).min(nc) };
                let sy = |v: &mut u64| if *v <= or { *v = (*v * nr / or).min(nr) };
                let ix = |v: &mut u64| if *v < oc { *v = *v * nc / oc };
                let iy = |v: &mut u64| if *v < or { *v = *v * nr / or };
                match &mut k.op {
                    GOp::CopyWithin { src, dest } => {
                        sx(&mut src[0]); sy(&mut src[1]); sx(&mut src[2]); sy(&mut src[3]); sx(&mut dest[0]); sy(&mut dest[1]);
                        // keep the destination inside
                        let (w, h) = (src[2].saturating_sub(src[0]), src[3].saturating_sub(src[1]));
                        if src[2] <= nc && dest[0] <= nc && dest[0] + w > nc { dest[0] = nc - w; }
                        if src[3] <= nr && dest[1] <= nr && dest[1] + h > nr { dest[1] = nr - h; }
                    }
                    GOp::Translate(a, b) => { sx(a); sy(b); }
                    GOp::Swap(a) => { ix(&mut a[0]); iy(&mut a[1]); ix(&mut a[2]); iy(&mut a[3]); }
                    GOp::SwapRows(a, b) | GOp::RowPairMut(a, b) => { iy(a); iy(b); }
                    GOp::SwapCols(a, b) => { ix(a); ix(b); }
                    GOp::IdxWrite(a, b, _) => { ix(a); iy(b); }
                    GOp::ColMutWrite { c, .. } => ix(c),
                    _ => {}
                }
            }
            k
        })
        .boxed()
}

/// Wraps an enumeration sink: every 5th case is repeated with the other cell types in turn.
pub fn emit_cells<'a>(emit: &'a mut dyn FnMut(GridCase)) -> impl FnMut(GridCase) + 'a {
    let mut n = 0u64;
    move |mut k: GridCase| {
        n += 1;
        if n % 3 == 0 {
            k.spare = 1 + (n / 3 % 8) as u8;
        }
        if n % 5 == 0 {
            let cell = [CellKind::K1, CellKind::K20, CellKind::Fat, CellKind::K2, CellKind::K8, CellKind::K16][(n / 5 % 6) as usize];
            let mut k2 = k.clone();
            k2.cell = if cell == CellKind::Fat && !fat_ok(&k2) { CellKind::K20 } else { cell };
            emit(k2);
        }
        emit(k);
    }
}

/// Bound a case decoded from raw fuzzer bytes.
pub fn sanitize(k: &mut GridCase, max: u8, views_only: bool) -> bool {
    k.cols %= max + 1;
    k.rows %= max + 1;
    for m in k.recv.m.iter_mut().chain(k.recv.m2.iter_mut()) {
        *m %= 4;
    }
    if views_only && !k.recv.is_view() {
        k.recv.kind = RecvKind::ViewMut;
    }
    if !k.recv.is_view() && (k.cols == 0 || k.rows == 0) {
        k.cols = 0;
        k.rows = 0;
    }
    k.line_keys.truncate(96);
    if let GOp::Sort { form, .. } = &mut k.op {
        *form %= 11;
    }
    k.big = (0, 0);
    k.more.truncate(4);
    if k.cell == CellKind::Fat && !fat_ok(k) {
        k.cell = CellKind::K20;
    }
    true
}

fn case(cols: u8, rows: u8, recv: Recv, keyseed: u32, op: GOp) -> GridCase {
    GridCase { cell: CellKind::Kc, cols, rows, recv, keyseed, alphabet: 4, line_keys: vec![], op, big: (0, 0), more: vec![], spare: 0, wide_alphabet: 0 }
}

fn enum_recvs() -> Vec<Recv> {
    vec![Recv::owned(), Recv::view([1, 1, 1, 1]), Recv::thin(), Recv::view([0, 0, 2, 0]), Recv::thin_view([2, 1, 0, 1]), Recv::nested([1, 0, 1, 1], [1, 1, 0, 1])]
}

// ---------------------------------------------------------------------------------------------
// C13

pub struct C13;
impl Prop for C13 {
    type Case = GridCase;
    fn heavy(k: &GridCase) -> bool {
        heavy(k)
    }
    const ID: &'static str = "C13";
    fn rule() -> &'static str {
        "swap / swap_rows / swap_cols / row_pair_mut / fill on {owned TooDee, TooDeeViewMut window (strided, nested), third-party implementor relying on the trait defaults}: exhaustive over shapes (0..=5)^2 x all coordinate / index pairs from {0..dim, dim+1 (rows/cols), usize::MAX} (equal, reversed, one or both out of range) x 6 receiver embeddings, plus random shapes up to 24x24; oracle = model transposition with whole-parent comparison, returned-slice identity for row_pair_mut, panic required for any out-of-range index and r1==r2 for row_pair_mut. Non-trivial = distinct in-range names on an array with >= 2 lines, or an out-of-range / equal-names case. Distinct = distinct case tuple. Cross-cutting families (DESIGN 4.0): operations are called through the concrete receiver types (inherent methods, `for v in &mut x`) and through the traits; cell types of 1/2/4/8/16/20/4800 bytes with lane checks; spare-capacity states of the root buffer; wrap-provoking indices ceil(2^64/stride)*j+d in every argument position; occasional dimensions up to 70001 with stretched coordinates."
    }
    fn bound(_t: Tier) -> String {
        "shapes (0..=5)^2, index values {0..dim+1, usize::MAX}, receivers: owned, 3 window embeddings (one nested), Thin over owned, Thin over window".into()
    }
    fn enumerate(_tier: Tier, emit: &mut dyn FnMut(GridCase)) {
        let mut emit_inner = emit_cells(emit);
        let emit: &mut dyn FnMut(GridCase) = &mut emit_inner;
        for recv in enum_recvs() {
            for cols in 0u8..=5 {
                for rows in 0u8..=5 {
                    if (cols == 0) != (rows == 0) {
                        continue;
                    }
                    let cv: Vec<u64> = (0..=cols as u64).chain([u64::MAX]).collect();
                    let rv: Vec<u64> = (0..=rows as u64).chain([u64::MAX]).collect();
                    for &c1 in &cv {
                        for &r1 in &rv {
                            for &c2 in &cv {
                                for &r2 in &rv {
                                    emit(case(cols, rows, recv, 1, GOp::Swap([c1, r1, c2, r2])));
                                }
                            }
                        }
                    }
                    let rv2: Vec<u64> = (0..=rows as u64 + 1).chain([u64::MAX, u64::MAX / 2 + 1]).collect();
                    let cv2: Vec<u64> = (0..=cols as u64 + 1).chain([u64::MAX, u64::MAX / 2 + 1]).collect();
                    for &a in &rv2 {
                        for &b in &rv2 {
                            emit(case(cols, rows, recv, 2, GOp::SwapRows(a, b)));
                            emit(case(cols, rows, recv, 3, GOp::RowPairMut(a, b)));
                        }
                    }
                    for &a in &cv2 {
                        for &b in &cv2 {
                            emit(case(cols, rows, recv, 4, GOp::SwapCols(a, b)));
                        }
                    }
                    emit(case(cols, rows, recv, 5, GOp::Fill(3)));
                    enum_wraps(cols, rows, recv, &|op| matches!(op, GOp::Swap(_) | GOp::SwapRows(..) | GOp::SwapCols(..) | GOp::RowPairMut(..)), emit);
                }
            }
        }
    }
    fn strategy(_tier: Tier) -> BoxedStrategy<GridCase> {
        let s = (big_dim(24), big_dim(24), recv_any(), any::<u32>())
            .prop_flat_map(|(cols, rows, recv, seed)| {
                let (cols, rows) = if cols == 0 || rows == 0 { (0, 0) } else { (cols, rows) };
                let op = prop_oneof![
                    3 => (idx(cols), idx(rows), idx(cols), idx(rows)).prop_map(|(a, b, c, d)| GOp::Swap([a, b, c, d])),
                    3 => (idx(rows), idx(rows)).prop_map(|(a, b)| GOp::SwapRows(a, b)),
                    3 => (idx(cols), idx(cols)).prop_map(|(a, b)| GOp::SwapCols(a, b)),
                    3 => (idx(rows), idx(rows)).prop_map(|(a, b)| GOp::RowPairMut(a, b)),
                    1 => (0u8..4).prop_map(GOp::Fill),
                ];
                op.prop_map(move |op| case(cols, rows, recv, seed, op))
            })
            .boxed();
        with_wraps(s)
    }
    fn fuzz_sanitize(k: &mut GridCase) -> bool {
        matches!(k.op, GOp::Swap(_) | GOp::SwapRows(..) | GOp::SwapCols(..) | GOp::RowPairMut(..) | GOp::Fill(_)) && sanitize(k, 12, false)
    }
    fn random_cases(tier: Tier) -> u64 {
        if tier == Tier::Quick { 400_000 } else { 6_000_000 }
    }
    fn execute(k: &GridCase, ctx: &mut Ctx) -> Verdict {
        let lay = layout(k.dims().0, k.dims().1, &k.recv);
        if lay.c <= 5 && lay.r <= 5 {
            zst_companion(lay.c, lay.r, &k.op)?;
            ctx.class("zero-sized-companion");
        }
        let out = run(k, Focus::Op, ctx)?;
        ctx.class(&format!("{:?}", k.recv.kind));
        if !out.valid {
            ctx.class("rejected");
            ctx.nt();
        } else {
            ctx.class("accepted");
            let lines = match &k.op {
                GOp::SwapCols(..) => lay.c,
                GOp::Swap(..) => lay.c * lay.r,
                GOp::Fill(_) => 0,
                _ => lay.r,
            };
            if out.changed_inside && lines >= 2 {
                ctx.nt();
            }
            if let GOp::SwapRows(a, b) | GOp::SwapCols(a, b) = &k.op {
                if a == b {
                    ctx.class("equal-in-range-names");
                    ctx.nt();
                }
            }
        }
        Ok(())
    }
    fn essential_classes() -> &'static [&'static str] {
        &["rejected", "accepted", "Thin", "ViewMut", "Nested", "Owned", "equal-in-range-names"]
    }
}

// ---------------------------------------------------------------------------------------------
// C14

pub struct C14;
impl Prop for C14 {
    type Case = GridCase;
    fn heavy(k: &GridCase) -> bool {
        heavy(k)
    }
    const ID: &'static str = "C14";
    fn rule() -> &'static str {
        "copy_from_slice / clone_from_slice / copy_from_toodee / clone_from_toodee with destinations {owned, strided / nested / empty window, third-party implementor} x sources {slice, owned, view, strided view, mutable view} of equal and unequal size (incl. same area, different shape), and copy_within exhaustively over shapes up to 4x4 (thorough 5x5) x all source rectangles {0..dim+1}^4 x all destination corners {0..dim+1}^2 x 3 implementors plus huge destination / rectangle components; oracle = row-major transfer / prior-contents rectangle copy with whole-parent comparison, panic required when sizes differ or a rectangle does not fit (contents after such a panic unconstrained). Non-trivial = overlapping source and destination of non-zero area, or a strided source/destination, or an empty destination, or a rejected call. Distinct = distinct case tuple. Cross-cutting families (DESIGN 4.0): operations are called through the concrete receiver types (inherent methods, `for v in &mut x`) and through the traits; cell types of 1/2/4/8/16/20/4800 bytes with lane checks; spare-capacity states of the root buffer; wrap-provoking indices ceil(2^64/stride)*j+d in every argument position; occasional dimensions up to 70001 with stretched coordinates. copy_within rectangles wider than 512 / 1024 columns in every direction."
    }
    fn bound(t: Tier) -> String {
        format!("copy_within: shapes (0..={n})^2, all (x0,y0,x1,y1) in {{0..dim+1}}^4, all dest in {{0..dim+1}}^2, receivers owned / interior window / Thin; copy_from_*: shapes (0..=4)^2 x 6 receivers x 5 source kinds x size deltas", n = if t == Tier::Quick { 4 } else { 5 })
    }
    fn enumerate(tier: Tier, emit: &mut dyn FnMut(GridCase)) {
        let mut emit_inner = emit_cells(emit);
        let emit: &mut dyn FnMut(GridCase) = &mut emit_inner;
        // rectangles wider than 512 / 1024 columns moved in every direction with overlapping rows
        for recv in [Recv::owned(), Recv::view([1, 1, 2, 1])] {
            for w in [513u64, 600, 1024, 1100] {
                for dx in [-300i64, -17, -1, 0, 1, 17, 300] {
                    for dy in [-1i64, 0, 1] {
                        for h in [2u64, 3] {
                            let (x0, y0) = (320u64, 1u64);
                            let op = GOp::CopyWithin { src: [x0, y0, x0 + w, y0 + h], dest: [(x0 as i64 + dx) as u64, (y0 as i64 + dy) as u64] };
                            emit(GridCase { cell: CellKind::Kc, cols: 0, rows: 5, recv, keyseed: 31, alphabet: 4, line_keys: vec![], op, big: (1800, 0), more: vec![], spare: 0, wide_alphabet: 0 });
                        }
                    }
                }
            }
        }
        let n = if tier == Tier::Quick { 4u8 } else { 5u8 };
        for recv in [Recv::owned(), Recv::view([1, 1, 2, 1]), Recv::thin()] {
            for cols in 0..=n {
                for rows in 0..=n {
                    if (cols == 0) != (rows == 0) {
                        continue;
                    }
                    let (c, r) = (cols as u64, rows as u64);
                    for x0 in 0..=c + 1 {
                        for x1 in 0..=c + 1 {
                            for y0 in 0..=r + 1 {
                                for y1 in 0..=r + 1 {
                                    for dx in 0..=c + 1 {
                                        for dy in 0..=r + 1 {
                                            emit(case(cols, rows, recv, 7, GOp::CopyWithin { src: [x0, y0, x1, y1], dest: [dx, dy] }));
                                        }
                                    }
                                }
                            }
                        }
                    }
                    // huge components
                    for h in [u64::MAX, u64::MAX - 1, u64::MAX / 2 + 1, 1u64 << 63] {
                        emit(case(cols, rows, recv, 7, GOp::CopyWithin { src: [0, 0, c.min(1), 0], dest: [h, 0] }));
                        emit(case(cols, rows, recv, 7, GOp::CopyWithin { src: [0, 0, 0, r.min(1)], dest: [0, h] }));
                        emit(case(cols, rows, recv, 7, GOp::CopyWithin { src: [0, 0, c.min(2), r.min(2)], dest: [h, h] }));
                        emit(case(cols, rows, recv, 7, GOp::CopyWithin { src: [0, 0, c, r], dest: [h - c.min(1), 0] }));
                        emit(case(cols, rows, recv, 7, GOp::CopyWithin { src: [h, 0, h, r], dest: [0, 0] }));
                        emit(case(cols, rows, recv, 7, GOp::CopyWithin { src: [0, h, c, h], dest: [0, 0] }));
                    }
                    enum_wraps(cols, rows, recv, &|op| matches!(op, GOp::CopyWithin { .. }), emit);
                }
            }
        }
        let mut recvs = enum_recvs();
        recvs.push(Recv::view([1, 1, 1, 1]));
        for recv in recvs {
            for cols in 0u8..=4 {
                for rows in 0u8..=4 {
                    // one-zero shapes give an *empty window inside a non-empty parent*
                    if !recv.is_view() && (cols == 0) != (rows == 0) {
                        continue;
                    }
                    for clone in [false, true] {
                        for delta in [0i8, 1, -1, 3] {
                            emit(case(cols, rows, recv, 11, GOp::CopyFromSlice { delta, clone }));
                        }
                        for src in [SrcKind::Owned, SrcKind::View, SrcKind::StridedView, SrcKind::ViewMut] {
                            for (dc, dr, transposed) in [(0i8, 0i8, false), (0, 0, true), (1, 0, false), (0, 1, false), (-1, 0, false), (0, -1, false), (1, -1, false)] {
                                emit(case(cols, rows, recv, 12, GOp::CopyFromToodee { src, dc, dr, transposed, clone }));
                            }
                        }
                    }
                }
            }
        }
    }
    fn strategy(_tier: Tier) -> BoxedStrategy<GridCase> {
        let s = (big_dim(16), big_dim(16), recv_any(), any::<u32>())
            .prop_flat_map(|(cols, rows, recv, seed)| {
                let (cols, rows) = if !recv.is_view() && (cols == 0 || rows == 0) { (0, 0) } else { (cols, rows) };
                let src_kind = prop_oneof![Just(SrcKind::Owned), Just(SrcKind::View), Just(SrcKind::StridedView), Just(SrcKind::ViewMut)];
                let op = prop_oneof![
                    2 => (prop_oneof![6 => Just(0i8), 1 => Just(1i8), 1 => Just(-1i8)], any::<bool>()).prop_map(|(delta, clone)| GOp::CopyFromSlice { delta, clone }),
                    3 => (src_kind, prop_oneof![6 => Just((0i8, 0i8)), 1 => Just((1i8, 0i8)), 1 => Just((0i8, -1i8)), 1 => Just((-1i8, 1i8))], prop::bool::weighted(0.15), any::<bool>()).prop_map(|(src, (dc, dr), transposed, clone)| GOp::CopyFromToodee { src, dc, dr, transposed, clone }),
                    6 => (bound(cols), bound(rows), bound(cols), bound(rows), bound(cols), bound(rows)).prop_map(|(a, b, c, d, e, f)| {
                        let (x0, x1) = if a <= c || a > 1000 || c > 1000 { (a, c) } else { (c, a) };
                        let (y0, y1) = if b <= d || b > 1000 || d > 1000 { (b, d) } else { (d, b) };
                        GOp::CopyWithin { src: [x0, y0, x1, y1], dest: [e, f] }
                    }),
                ];
                op.prop_map(move |op| case(cols, rows, recv, seed, op))
            })
            .boxed();
        with_wraps(s)
    }
    fn fuzz_sanitize(k: &mut GridCase) -> bool {
        matches!(k.op, GOp::CopyFromSlice { .. } | GOp::CopyFromToodee { .. } | GOp::CopyWithin { .. }) && sanitize(k, 9, false)
    }
    fn random_cases(tier: Tier) -> u64 {
        if tier == Tier::Quick { 400_000 } else { 6_000_000 }
    }
    fn execute(k: &GridCase, ctx: &mut Ctx) -> Verdict {
        let lay = layout(k.dims().0, k.dims().1, &k.recv);
        if lay.c <= 5 && lay.r <= 5 {
            zst_companion(lay.c, lay.r, &k.op)?;
            ctx.class("zero-sized-companion");
        }
        let out = run(k, Focus::Op, ctx)?;
        ctx.class(&format!("{:?}", k.recv.kind));
        if !out.valid {
            ctx.class("rejected");
            ctx.nt();
            return Ok(());
        }
        ctx.class("accepted");
        match &k.op {
            GOp::CopyWithin { src, dest } => {
                let (w, h) = (src[2] - src[0], src[3] - src[1]);
                if w > 0 && h > 0 {
                    let ox = src[0] < dest[0] + w && dest[0] < src[2];
                    let oy = src[1] < dest[1] + h && dest[1] < src[3];
                    if ox && oy {
                        ctx.class("copy_within-overlapping");
                        ctx.nt();
                        let dir = format!("overlap-dir-{}{}", if dest[1] < src[1] { "up" } else if dest[1] > src[1] { "down" } else { "same-row" }, if dest[0] < src[0] { "-left" } else if dest[0] > src[0] { "-right" } else { "" });
                        ctx.class(&dir);
                    }
                }
            }
            GOp::CopyFromSlice { .. } | GOp::CopyFromToodee { .. } => {
                if lay.c == 0 {
                    ctx.class("empty-destination");
                    ctx.nt();
                }
                if k.recv.is_view() {
                    ctx.class("strided-destination");
                    ctx.nt();
                }
                if let GOp::CopyFromToodee { src: SrcKind::StridedView | SrcKind::ViewMut, .. } = &k.op {
                    ctx.class("strided-source");
                    ctx.nt();
                }
            }
            _ => {}
        }
        Ok(())
    }
    fn essential_classes() -> &'static [&'static str] {
        &["rejected", "accepted", "copy_within-overlapping", "empty-destination", "strided-destination", "strided-source", "overlap-dir-up", "overlap-dir-down", "overlap-dir-same-row-left", "overlap-dir-same-row-right"]
    }
}

// ---------------------------------------------------------------------------------------------
// C15

fn gcd(a: usize, b: usize) -> usize {
    if b == 0 {
        a
    } else {
        gcd(b, a % b)
    }
}

pub struct C15;
impl Prop for C15 {
    type Case = GridCase;
    fn heavy(k: &GridCase) -> bool {
        heavy(k)
    }
    const ID: &'static str = "C15";
    fn rule() -> &'static str {
        "translate_with_wrap / flip_rows / flip_cols: exhaustive over shapes (0..=8)^2 (thorough 12^2) x all mids 0..=dim+1 (+ usize::MAX) x {owned, interior window, nested window, Thin}; random shapes up to 48x48. Oracle = the stated index formula on distinct cells (so loss / duplication is impossible to miss) with whole-parent comparison; mid component > dim must panic. Non-trivial = row offset not in {0,R} with gcd(R, R-mr) > 1 (multi-cycle path), or a column offset not in {0,C}, or a rejected call. Distinct = distinct case tuple. Cross-cutting families (DESIGN 4.0): operations are called through the concrete receiver types (inherent methods, `for v in &mut x`) and through the traits; cell types of 1/2/4/8/16/20/4800 bytes with lane checks; spare-capacity states of the root buffer; wrap-provoking indices ceil(2^64/stride)*j+d in every argument position; occasional dimensions up to 70001 with stretched coordinates."
    }
    fn bound(t: Tier) -> String {
        format!("shapes (0..={n})^2, mids 0..=dim+1 and usize::MAX, 4 receivers", n = if t == Tier::Quick { 8 } else { 12 })
    }
    fn enumerate(tier: Tier, emit: &mut dyn FnMut(GridCase)) {
        let mut emit_inner = emit_cells(emit);
        let emit: &mut dyn FnMut(GridCase) = &mut emit_inner;
        let n = if tier == Tier::Quick { 8u8 } else { 12u8 };
        for recv in [Recv::owned(), Recv::view([1, 1, 1, 1]), Recv::thin(), Recv::nested([0, 1, 2, 0], [1, 0, 0, 1])] {
            for cols in 0..=n {
                for rows in 0..=n {
                    if (cols == 0) != (rows == 0) {
                        continue;
                    }
                    for mc in (0..=cols as u64 + 1).chain([u64::MAX]) {
                        for mr in (0..=rows as u64 + 1).chain([u64::MAX]) {
                            emit(case(cols, rows, recv, 21, GOp::Translate(mc, mr)));
                        }
                    }
                    emit(case(cols, rows, recv, 22, GOp::FlipRows));
                    emit(case(cols, rows, recv, 23, GOp::FlipCols));
                    if cols <= 4 && rows <= 4 {
                        enum_wraps(cols, rows, recv, &|op| matches!(op, GOp::Translate(..)), emit);
                    }
                }
            }
        }
    }
    fn strategy(_tier: Tier) -> BoxedStrategy<GridCase> {
        let s = (big_dim(48), big_dim(48), recv_any(), any::<u32>())
            .prop_flat_map(|(cols, rows, recv, seed)| {
                let (cols, rows) = if cols == 0 || rows == 0 { (0, 0) } else { (cols, rows) };
                let op = prop_oneof![
                    8 => (bound(cols), bound(rows)).prop_map(|(a, b)| GOp::Translate(a, b)),
                    1 => Just(GOp::FlipRows),
                    1 => Just(GOp::FlipCols),
                ];
                op.prop_map(move |op| case(cols, rows, recv, seed, op))
            })
            .boxed();
        with_wraps(s)
    }
    fn fuzz_sanitize(k: &mut GridCase) -> bool {
        matches!(k.op, GOp::Translate(..) | GOp::FlipRows | GOp::FlipCols) && sanitize(k, 24, false)
    }
    fn random_cases(tier: Tier) -> u64 {
        if tier == Tier::Quick { 300_000 } else { 4_000_000 }
    }
    fn execute(k: &GridCase, ctx: &mut Ctx) -> Verdict {
        let lay = layout(k.dims().0, k.dims().1, &k.recv);
        if lay.c <= 5 && lay.r <= 5 {
            zst_companion(lay.c, lay.r, &k.op)?;
            ctx.class("zero-sized-companion");
        }
        let out = run(k, Focus::Op, ctx)?;
        ctx.class(&format!("{:?}", k.recv.kind));
        if !out.valid {
            ctx.class("rejected");
            ctx.nt();
            return Ok(());
        }
        if let GOp::Translate(mc, mr) = &k.op {
            let (mc, mr) = (*mc as usize, *mr as usize);
            if mr != 0 && mr != lay.r {
                let g = gcd(lay.r, lay.r - mr);
                ctx.class(if g > 1 { "row-offset-multi-cycle" } else { "row-offset-single-cycle" });
                if g > 1 {
                    ctx.nt();
                }
                if mc != 0 && mc != lay.c {
                    ctx.class("row-and-col-offset");
                }
            }
            if mc != 0 && mc != lay.c {
                ctx.nt();
                if mr == 0 || mr == lay.r {
                    ctx.class("col-offset-only");
                }
            }
            if lay.c != lay.r {
                ctx.class("non-square");
            }
        } else if lay.c * lay.r > 1 {
            ctx.class("flip");
            ctx.nt();
        }
        Ok(())
    }
    fn essential_classes() -> &'static [&'static str] {
        &["rejected", "row-offset-multi-cycle", "row-offset-single-cycle", "row-and-col-offset", "col-offset-only", "non-square", "flip"]
    }
}

// ---------------------------------------------------------------------------------------------
// C16 / C17

fn sort_enumerate(by_row: bool, tier: Tier, emit: &mut dyn FnMut(GridCase)) {
    let forms: [u8; 6] = if by_row { [0, 1, 2, 3, 4, 5] } else { [6, 7, 8, 9, 10, 10] };
    let nforms = if by_row { 6 } else { 5 };
    let maxlen = if tier == Tier::Quick { 5usize } else { 6usize };
    for recv in [Recv::owned(), Recv::view([1, 1, 1, 1]), Recv::thin()] {
        for len in 1..=maxlen {
            // every key line over the alphabet {0,1,2}
            let total = 3usize.pow(len as u32);
            for code in 0..total {
                let mut keys = Vec::with_capacity(len);
                let mut x = code;
                for _ in 0..len {
                    keys.push((x % 3) as u8);
                    x /= 3;
                }
                for other in [1u8, 3u8] {
                    let (cols, rows) = if by_row { (len as u8, other) } else { (other, len as u8) };
                    let line = (other - 1) as u64;
                    for fi in 0..nforms {
                        let form = forms[fi];
                        let ord = matches!(form, 2 | 5 | 8);
                        for keyfn in if ord { 0..1u8 } else { 0..8u8 } {
                            // to bound the work, the non-identity key functions run on the 3-wide shape only
                            if keyfn > 0 && other == 1 {
                                continue;
                            }
                            emit(GridCase { cell: CellKind::Kc, cols, rows, recv, keyseed: code as u32, alphabet: 3, line_keys: keys.clone(), op: GOp::Sort { form, line, keyfn }, big: (0, 0), more: vec![], spare: 0, wide_alphabet: 0 });
                        }
                    }
                }
            }
        }
        // out-of-range lines
        for cols in 0u8..=3 {
            for rows in 0u8..=3 {
                if (cols == 0) != (rows == 0) {
                    continue;
                }
                let dim = if by_row { rows } else { cols } as u64;
                for fi in 0..nforms {
                    for line in [dim, dim + 1, u64::MAX] {
                        emit(GridCase { cell: CellKind::Kc, cols, rows, recv, keyseed: 5, alphabet: 3, line_keys: vec![], op: GOp::Sort { form: forms[fi], line, keyfn: 0 }, big: (0, 0), more: vec![], spare: 0, wide_alphabet: 0 });
                    }
                }
                enum_wraps(cols, rows, recv, &|op| matches!(op, GOp::Sort { form, .. } if (*form < 6) == by_row), emit);
            }
        }
    }
    // key cardinalities around 256 on long lines (bucket / counting paths): 255, 256, 257, 258 distinct keys
    for &wide in &[255u16, 256, 257, 258, 1000] {
        for &n in &[1030u32, 2100] {
            for fi in 0..nforms {
                let (big, cols, rows) = if by_row { ((n, 0), 0u8, 2u8) } else { ((0, n), 2u8, 0u8) };
                emit(GridCase { cell: CellKind::Kc, cols, rows, recv: Recv::owned(), keyseed: 3, alphabet: 3, line_keys: vec![], op: GOp::Sort { form: forms[fi], line: 0, keyfn: (fi % 3) as u8 }, big, more: vec![], spare: 0, wide_alphabet: wide });
            }
        }
    }
    // very long key lines (thresholds on the number of lines): every variant, ties and inversions throughout
    for &n in &[1025u32, 32768, 65538] {
        for recv in [Recv::owned(), Recv::view([1, 0, 1, 1])] {
            for fi in 0..nforms {
                for (keyfn, keys) in [(0u8, vec![2u8, 0, 1, 1, 0, 2, 1]), (1, vec![0, 0, 1, 2, 2, 1, 0, 1, 2, 0, 0])] {
                    let (big, cols, rows) = if by_row { ((n, 0), 0u8, 2u8) } else { ((0, n), 2u8, 0u8) };
                    emit(GridCase { cell: CellKind::Kc, cols, rows, recv, keyseed: 9, alphabet: 3, line_keys: keys, op: GOp::Sort { form: forms[fi], line: 1, keyfn }, big, more: vec![], spare: 0, wide_alphabet: 0 });
                }
            }
        }
    }
}

fn sort_strategy(by_row: bool) -> BoxedStrategy<GridCase> {
    // key lines of length 21..64 against a short other dimension (std's unstable sort is an
    // insertion sort -- accidentally stable -- up to 20 elements), plus general small shapes
    let shape = prop_oneof![
        5 => (33u8..=96, 1u8..=4),
        1 => (21u8..=32, 1u8..=4),
        3 => (2u8..=20, 1u8..=8),
        1 => (1u8..=2, 1u8..=3),
    ];
    let s = (shape, recv_any(), any::<u32>(), 2u8..=4, 0u8..6, 0u8..8, any::<u16>(), prop::bool::weighted(0.06), 0u8..14)
        .prop_map(move |((len, other), recv, keyseed, alphabet, f, keyfn, lfrac, bad, pattern)| {
            let (cols, rows) = if by_row { (len, other) } else { (other, len) };
            let form = if by_row { f } else { 6 + f % 5 };
            let dim = other as u64;
            let line = if bad { dim + (lfrac as u64 % 2) } else { (lfrac as u64 * dim) >> 16 };
            // structured key lines (pre-sorted / reverse-sorted with ties / sorted except the last
            // element / constant / two runs): the inputs that adaptive pre-passes special-case
            let n = len as usize;
            let a = alphabet.max(2) as usize;
            let asc = |i: usize| (i * a / n.max(1)) as u8;
            let line_keys: Vec<u8> = match pattern {
                0 => (0..n).map(asc).collect(),
                1 => (0..n).map(|i| asc(n - 1 - i)).collect(),
                2 => (0..n).map(|i| if i + 1 == n { (keyseed % a as u32) as u8 } else { asc(i) }).collect(),
                3 => (0..n).map(|i| if i + 1 == n { (keyseed % a as u32) as u8 } else { asc(n - 1 - i) }).collect(),
                4 => vec![1; n],
                5 => (0..n).map(|i| asc((2 * i) % n.max(1))).collect(),
                6 => (0..n).map(|i| if i == 0 { (a - 1) as u8 } else { asc(i) }).collect(),
                _ => vec![],
            };
            GridCase { cell: CellKind::Kc, cols, rows, recv, keyseed, alphabet, line_keys, op: GOp::Sort { form, line, keyfn }, big: (0, 0), more: vec![], spare: 0, wide_alphabet: 0 }
        })
        .boxed();
    with_wraps(s)
}

/// The same sort on an array of a zero-sized element type: only panic / no panic and the
/// shape are observable, and both must be as for any other element type.
fn zst_sort_companion(c: usize, r: usize, form: u8, line: usize) -> Verdict {
    use std::cmp::Ordering;
    let mut z: TooDee<()> = if c == 0 { TooDee::default() } else { TooDee::init(c, r, ()) };
    let form = form % 11;
    let dim = if form < 6 { r } else { c };
    let res = catch(|| match form {
        0 => z.sort_by_row(line, |_, _| Ordering::Equal),
        1 => z.sort_by_row_key(line, |_| 0u8),
        2 => z.sort_row_ord::<()>(line),
        3 => z.sort_unstable_by_row(line, |_, _| Ordering::Equal),
        4 => z.sort_unstable_by_row_key(line, |_| 0u8),
        5 => z.sort_unstable_row_ord::<()>(line),
        6 => z.sort_by_col(line, |_, _| Ordering::Equal),
        7 => z.sort_by_col_key(line, |_| 0u8),
        8 => z.sort_col_ord::<()>(line),
        9 => z.sort_unstable_by_col(line, |_, _| Ordering::Equal),
        _ => z.sort_unstable_by_col_key(line, |_| 0u8),
    });
    if line < dim {
        ensure!(res.is_ok(), "zst/valid-panicked", "sort form {} of line {} on a {}x{} array of a zero-sized type panicked: {:?}", form, line, c, r, res);
        ensure!(z.size() == (c, r) && z.data().len() == c * r, "zst/shape-changed", "sort form {} on a {}x{} array of a zero-sized type left size {:?}", form, c, r, z.size());
    } else {
        ensure!(res.is_err(), "zst/invalid-accepted", "sort form {} of the out-of-range line {} on a {}x{} array of a zero-sized type must panic but returned", form, line, c, r);
    }
    Ok(())
}

fn sort_execute(k: &GridCase, ctx: &mut Ctx) -> Verdict {
    let lay = layout(k.dims().0, k.dims().1, &k.recv);
    if let GOp::Sort { form, line, .. } = &k.op {
        if lay.c <= 8 && lay.r <= 8 {
            zst_sort_companion(lay.c, lay.r, *form, (*line).min(1 << 20) as usize)?;
        }
    }
    let out = run(k, Focus::Op, ctx)?;
    ctx.class(&format!("{:?}", k.recv.kind));
    if !out.valid {
        ctx.class("rejected");
        return Ok(());
    }
    if let GOp::Sort { form, .. } = &k.op {
        let form = *form % 11;
        let by_row = form < 6;
        let across = if by_row { lay.c } else { lay.r };
        ctx.class(["sort_by_row", "sort_by_row_key", "sort_row_ord", "sort_unstable_by_row", "sort_unstable_by_row_key", "sort_unstable_row_ord", "sort_by_col", "sort_by_col_key", "sort_col_ord", "sort_unstable_by_col", "sort_unstable_by_col_key"][form as usize]);
        if out.had_tie && out.had_inversion && across >= 2 {
            ctx.nt();
            ctx.class("tie-and-inversion");
            if across > 32 {
                ctx.class("tie-and-inversion-line-longer-than-32");
            }
        }
        if lay.c != lay.r {
            ctx.class("non-square");
        }
    }
    Ok(())
}

pub struct C16;
impl Prop for C16 {
    type Case = GridCase;
    fn heavy(k: &GridCase) -> bool {
        heavy(k)
    }
    const ID: &'static str = "C16";
    fn rule() -> &'static str {
        "the six sort-by-row variants (closure incl. reversed comparator, key function incl. non-monotone keys, Ord; stable and unstable) on {owned, interior window, Thin, nested}: every key row of length 1..=5 (thorough 6) over a 3-letter alphabet (all tie patterns) x heights {1,3}, every out-of-range row index, plus random key rows of length 21..96 (std's unstable sort is an insertion sort, hence accidentally stable, for short inputs: up to 20 or 32 elements depending on the std version) and small shapes; cells are (key,id) with unique ids. Oracle (both directions): chosen row ordered, every result column is one original column intact and each original column appears exactly once; stable variants equal the model's stable sort (ties keep left-to-right order); out-of-range row panics; outside of a window unchanged. Non-trivial = >= 1 tie and >= 1 inversion in the key row of an array with >= 2 columns. Distinct = distinct case tuple. Cross-cutting families (DESIGN 4.0): operations are called through the concrete receiver types (inherent methods, `for v in &mut x`) and through the traits; cell types of 1/2/4/8/16/20/4800 bytes with lane checks; spare-capacity states of the root buffer; wrap-provoking indices ceil(2^64/stride)*j+d in every argument position; occasional dimensions up to 70001 with stretched coordinates. Key functions of other key types (negative i8, Reverse<u8>, Ordering, (bool,u8), i64 near MIN); key cardinalities 255/256/257/258/1000 on lines of 1030 and 2100; lines of 1025/32768/65538."
    }
    fn bound(t: Tier) -> String {
        format!("all key rows of length 1..={} over {{0,1,2}}, heights {{1,3}}, 6 variants x 3 key functions, receivers owned / window / Thin; all out-of-range rows for shapes (0..=3)^2", if t == Tier::Quick { 5 } else { 6 })
    }
    fn enumerate(tier: Tier, emit: &mut dyn FnMut(GridCase)) {
        let mut emit_inner = emit_cells(emit);
        let emit: &mut dyn FnMut(GridCase) = &mut emit_inner;
        sort_enumerate(true, tier, emit)
    }
    fn strategy(_t: Tier) -> BoxedStrategy<GridCase> {
        sort_strategy(true)
    }
    fn fuzz_sanitize(k: &mut GridCase) -> bool {
        if let GOp::Sort { form, .. } = &mut k.op {
            *form %= 6;
        } else {
            return false;
        }
        k.rows %= 5;
        sanitize(k, 80, false)
    }
    fn random_cases(tier: Tier) -> u64 {
        if tier == Tier::Quick { 300_000 } else { 4_000_000 }
    }
    fn execute(k: &GridCase, ctx: &mut Ctx) -> Verdict {
        sort_execute(k, ctx)
    }
    fn essential_classes() -> &'static [&'static str] {
        &["rejected", "tie-and-inversion", "tie-and-inversion-line-longer-than-32", "sort_by_row", "sort_by_row_key", "sort_row_ord", "sort_unstable_by_row", "sort_unstable_by_row_key", "sort_unstable_row_ord", "non-square"]
    }
}

pub struct C17;
impl Prop for C17 {
    type Case = GridCase;
    fn heavy(k: &GridCase) -> bool {
        heavy(k)
    }
    const ID: &'static str = "C17";
    fn rule() -> &'static str {
        "the five sort-by-column variants (closure incl. reversed comparator, key function incl. non-monotone keys, Ord; stable and unstable) on {owned, interior window, Thin, nested}: every key column of length 1..=5 (thorough 6) over a 3-letter alphabet x widths {1,3}, every out-of-range column index, plus random key columns of length 21..96 and small non-square shapes; cells are (key,id) with unique ids. Oracle (both directions): chosen column ordered (by the comparison or the key function), every result row is one original row intact and each appears exactly once; stable variants equal the model's stable sort (ties keep top-to-bottom order); out-of-range column panics; outside of a window unchanged. Non-trivial = >= 1 tie and >= 1 inversion in the key column of an array with >= 2 rows. Distinct = distinct case tuple. Cross-cutting families (DESIGN 4.0): operations are called through the concrete receiver types (inherent methods, `for v in &mut x`) and through the traits; cell types of 1/2/4/8/16/20/4800 bytes with lane checks; spare-capacity states of the root buffer; wrap-provoking indices ceil(2^64/stride)*j+d in every argument position; occasional dimensions up to 70001 with stretched coordinates. Key functions of other key types; key cardinalities 255/256/257/258/1000; lines of 1025/32768/65538."
    }
    fn bound(t: Tier) -> String {
        format!("all key columns of length 1..={} over {{0,1,2}}, widths {{1,3}}, 5 variants x 3 key functions, receivers owned / window / Thin; all out-of-range columns for shapes (0..=3)^2", if t == Tier::Quick { 5 } else { 6 })
    }
    fn enumerate(tier: Tier, emit: &mut dyn FnMut(GridCase)) {
        let mut emit_inner = emit_cells(emit);
        let emit: &mut dyn FnMut(GridCase) = &mut emit_inner;
        sort_enumerate(false, tier, emit)
    }
    fn strategy(_t: Tier) -> BoxedStrategy<GridCase> {
        sort_strategy(false)
    }
    fn fuzz_sanitize(k: &mut GridCase) -> bool {
        if let GOp::Sort { form, .. } = &mut k.op {
            *form = 6 + *form % 5;
        } else {
            return false;
        }
        k.cols %= 5;
        sanitize(k, 80, false)
    }
    fn random_cases(tier: Tier) -> u64 {
        if tier == Tier::Quick { 300_000 } else { 4_000_000 }
    }
    fn execute(k: &GridCase, ctx: &mut Ctx) -> Verdict {
        sort_execute(k, ctx)
    }
    fn essential_classes() -> &'static [&'static str] {
        &["rejected", "tie-and-inversion", "tie-and-inversion-line-longer-than-32", "sort_by_col", "sort_by_col_key", "sort_col_ord", "sort_unstable_by_col", "sort_unstable_by_col_key", "non-square"]
    }
}

// ---------------------------------------------------------------------------------------------
// C04

pub fn valid_op(cols: u8, rows: u8) -> BoxedStrategy<GOp> {
    let (c, r) = (cols as u64, rows as u64);
    let vi = |d: u64| (0..d.max(1));
    let vb = |d: u64| (0..=d);
    let mut v: Vec<(u32, BoxedStrategy<GOp>)> = vec![
        (2, (0u8..4).prop_map(GOp::Fill).boxed()),
        (1, Just(GOp::FlipRows).boxed()),
        (1, Just(GOp::FlipCols).boxed()),
        (3, (vb(c), vb(r)).prop_map(|(a, b)| GOp::Translate(a, b)).boxed()),
        (2, any::<bool>().prop_map(|clone| GOp::CopyFromSlice { delta: 0, clone }).boxed()),
        (3, (prop_oneof![Just(SrcKind::Owned), Just(SrcKind::View), Just(SrcKind::StridedView), Just(SrcKind::ViewMut)], any::<bool>()).prop_map(|(src, clone)| GOp::CopyFromToodee { src, dc: 0, dr: 0, transposed: false, clone }).boxed()),
        (3, (any::<bool>(), 1u8..4, 0u8..4).prop_map(|(rev, step, skip)| GOp::RowsMutWrite { rev, step, skip }).boxed()),
        (3, (any::<bool>(), 1u8..4, 0u8..6).prop_map(|(rev, step, skip)| GOp::CellsMutWrite { rev, step, skip }).boxed()),
        (4, (vb(c), vb(r), vb(c), vb(r), any::<u16>(), any::<u16>()).prop_map(move |(a, b, cc, d, e, f)| {
            let (x0, x1) = (a.min(cc), a.max(cc));
            let (y0, y1) = (b.min(d), b.max(d));
            let dx = (e as u64 * (c - (x1 - x0) + 1)) >> 16;
            let dy = (f as u64 * (r - (y1 - y0) + 1)) >> 16;
            GOp::CopyWithin { src: [x0, y0, x1, y1], dest: [dx, dy] }
        }).boxed()),
    ];
    if cols > 0 && rows > 0 {
        v.push((3, (vi(c), vi(r), vi(c), vi(r)).prop_map(|(a, b, cc, d)| GOp::Swap([a, b, cc, d])).boxed()));
        v.push((3, (vi(r), vi(r)).prop_map(|(a, b)| GOp::SwapRows(a, b)).boxed()));
        v.push((3, (vi(c), vi(c)).prop_map(|(a, b)| GOp::SwapCols(a, b)).boxed()));
        v.push((2, (vi(c), vi(r), any::<bool>()).prop_map(|(a, b, via)| GOp::IdxWrite(a, b, via)).boxed()));
        v.push((3, (vi(c), any::<bool>(), 1u8..4, 0u8..4).prop_map(|(cc, rev, step, skip)| GOp::ColMutWrite { c: cc, rev, step, skip }).boxed()));
        v.push((5, (0u8..6, vi(r), 0u8..8).prop_map(|(form, line, keyfn)| GOp::Sort { form, line, keyfn }).boxed()));
        v.push((5, (6u8..11, vi(c), 0u8..8).prop_map(|(form, line, keyfn)| GOp::Sort { form, line, keyfn }).boxed()));
        if rows > 1 {
            v.push((2, (vi(r), 1..r).prop_map(move |(a, off)| GOp::RowPairMut(a, (a + off) % r)).boxed()));
        }
    }
    proptest::strategy::Union::new_weighted(v).boxed()
}

pub struct C04;
impl Prop for C04 {
    type Case = GridCase;
    fn heavy(k: &GridCase) -> bool {
        heavy(k)
    }
    const ID: &'static str = "C04";
    fn rule() -> &'static str {
        "one valid mutating operation (indexed writes, fill, swap family, row_pair_mut, writes through rows_mut / col_mut / cells_mut incl. rev / skip / step_by, copy_from_slice, clone_from_slice, copy/clone_from_toodee, copy_within, all eleven sort variants, translate_with_wrap, flips) on a TooDeeViewMut window of a parent with distinct cells: window classes interior, touching each edge, single row / column, full, empty, nested two levels (also a full-width inner window of a strided outer one), a view built directly over a longer slice, and through a third-party wrapper; shapes up to 10x10 with margins 0..3. Oracle: (a) every parent cell outside the rectangle is bit-for-bit unchanged; (b) differential: inside equals the result of the same operation on an owned copy (unstable sorts with tied keys: validity only), and both equal the rows-of-cells model. Non-trivial = the window is smaller than its parent in at least one dimension and the operation changed at least one inside cell. Distinct = distinct case tuple. Cross-cutting families (DESIGN 4.0): operations are called through the concrete receiver types (inherent methods, `for v in &mut x`) and through the traits; cell types of 1/2/4/8/16/20/4800 bytes with lane checks; spare-capacity states of the root buffer; wrap-provoking indices ceil(2^64/stride)*j+d in every argument position; occasional dimensions up to 70001 with stretched coordinates. 25 % of the random cases apply a sequence of up to four operations to the same window."
    }
    fn bound(_t: Tier) -> String {
        "exhaustive part: shapes (1..=4)^2 x 7 window embeddings x a fixed list of 40 operations".into()
    }
    fn enumerate(_tier: Tier, emit: &mut dyn FnMut(GridCase)) {
        let mut emit_inner = emit_cells(emit);
        let emit: &mut dyn FnMut(GridCase) = &mut emit_inner;
        let recvs = [Recv::view([1, 1, 1, 1]), Recv::view([0, 0, 2, 0]), Recv::view([2, 1, 0, 0]), Recv::thin_view([1, 2, 1, 0]), Recv::nested([1, 0, 1, 1], [0, 1, 1, 0]), Recv::slice_mut(2), Recv::nested([1, 1, 1, 1], [0, 1, 0, 1])];
        // index arguments whose product with the stride wraps (only "outside unchanged" is judged)
        for recv in recvs {
            for (cols, rows) in [(1u8, 1u8), (2, 2), (3, 2), (2, 4), (4, 3)] {
                enum_wraps(cols, rows, recv, &|_| true, emit);
            }
        }
        for recv in recvs {
            for cols in 1u8..=4 {
                for rows in 1u8..=4 {
                    let (c, r) = (cols as u64, rows as u64);
                    let mut ops = vec![
                        GOp::Fill(1), GOp::FlipRows, GOp::FlipCols, GOp::Translate(1 % (c + 1), 1 % (r + 1)), GOp::Translate(c, r), GOp::Translate(c / 2, 0), GOp::Translate(0, r / 2),
                        GOp::Swap([0, 0, c - 1, r - 1]), GOp::SwapRows(0, r - 1), GOp::SwapCols(0, c - 1), GOp::SwapRows(r - 1, 0),
                        GOp::IdxWrite(c - 1, r - 1, false), GOp::IdxWrite(0, r - 1, true),
                        GOp::RowsMutWrite { rev: false, step: 1, skip: 0 }, GOp::RowsMutWrite { rev: true, step: 2, skip: 1 },
                        GOp::ColMutWrite { c: c - 1, rev: false, step: 1, skip: 0 }, GOp::ColMutWrite { c: 0, rev: true, step: 2, skip: 1 },
                        GOp::CellsMutWrite { rev: false, step: 1, skip: 0 }, GOp::CellsMutWrite { rev: true, step: 3, skip: 2 },
                        GOp::CopyFromSlice { delta: 0, clone: false }, GOp::CopyFromSlice { delta: 0, clone: true },
                        GOp::CopyFromToodee { src: SrcKind::Owned, dc: 0, dr: 0, transposed: false, clone: false },
                        GOp::CopyFromToodee { src: SrcKind::StridedView, dc: 0, dr: 0, transposed: false, clone: true },
                        GOp::CopyWithin { src: [0, 0, c - c / 2, r - r / 2], dest: [c / 2, r / 2] },
                        GOp::CopyWithin { src: [c / 2, r / 2, c, r], dest: [0, 0] },
                        GOp::CopyWithin { src: [0, 0, c, r], dest: [0, 0] },
                    ];
                    if rows > 1 {
                        ops.push(GOp::RowPairMut(0, r - 1));
                        ops.push(GOp::RowPairMut(r - 1, 0));
                    }
                    for form in 0..11u8 {
                        let dim = if form < 6 { r } else { c };
                        ops.push(GOp::Sort { form, line: dim - 1, keyfn: 0 });
                        ops.push(GOp::Sort { form, line: 0, keyfn: 1 });
                    }
                    for op in ops {
                        emit(GridCase { cell: CellKind::Kc, cols, rows, recv, keyseed: (cols as u32) * 16 + rows as u32, alphabet: 3, line_keys: vec![], op, big: (0, 0), more: vec![], spare: 0, wide_alphabet: 0 });
                    }
                }
            }
        }
    }
    fn strategy(_tier: Tier) -> BoxedStrategy<GridCase> {
        let s = (big_dim(10), big_dim(10), recv_view(), any::<u32>(), 2u8..=4)
            .prop_flat_map(|(cols, rows, recv, seed, alphabet)| {
                let (ec, er) = (if rows == 0 { 0 } else { cols }, if cols == 0 { 0 } else { rows });
                // mostly valid arguments (the property's quantifier); some invalid ones, for
                // which only "outside unchanged" is judged
                let maybe_invalid = prop_oneof![
                    (idx(ec), idx(er), idx(ec), idx(er)).prop_map(|(a, b, c, d)| GOp::Swap([a, b, c, d])),
                    (idx(er), idx(er)).prop_map(|(a, b)| GOp::SwapRows(a, b)),
                    (idx(ec), idx(ec)).prop_map(|(a, b)| GOp::SwapCols(a, b)),
                    (idx(er), idx(er)).prop_map(|(a, b)| GOp::RowPairMut(a, b)),
                    (bound(ec), bound(er)).prop_map(|(a, b)| GOp::Translate(a, b)),
                    (bound(ec), bound(er), bound(ec), bound(er), bound(ec), bound(er)).prop_map(|(a, b, c, d, e, f)| GOp::CopyWithin { src: [a.min(c), b.min(d), a.max(c), b.max(d)], dest: [e, f] }),
                    (0u8..11, idx(er.max(ec)), 0u8..8).prop_map(|(form, line, keyfn)| GOp::Sort { form, line, keyfn }),
                    (idx(ec), idx(er), any::<bool>()).prop_map(|(a, b, via)| GOp::IdxWrite(a, b, via)),
                    (idx(ec), any::<bool>(), 1u8..3, 0u8..3).prop_map(|(cc, rev, step, skip)| GOp::ColMutWrite { c: cc, rev, step, skip }),
                ];
                (prop_oneof![9 => valid_op(ec, er), 1 => maybe_invalid.boxed()], prop_oneof![3 => Just(vec![]).boxed(), 1 => prop::collection::vec(valid_op(ec, er), 1..4).boxed()]).prop_map(move |(op, more)| GridCase { cell: CellKind::Kc, cols, rows, recv, keyseed: seed, alphabet, line_keys: vec![], op, big: (0, 0), more, spare: 0, wide_alphabet: 0 })
            })
            .boxed();
        with_wraps(s)
    }
    fn fuzz_sanitize(k: &mut GridCase) -> bool {
        sanitize(k, 10, true)
    }
    fn random_cases(tier: Tier) -> u64 {
        if tier == Tier::Quick { 600_000 } else { 8_000_000 }
    }
    fn execute(k: &GridCase, ctx: &mut Ctx) -> Verdict {
        let lay = layout(k.dims().0, k.dims().1, &k.recv);
        let out = run(k, Focus::ViewIsolation, ctx)?;
        if !out.valid {
            ctx.class("invalid-argument(only outside-unchanged is judged)");
            return Ok(());
        }
        ctx.class(&op_name(&k.op));
        ctx.class(&format!("{:?}", k.recv.kind));
        let has_outside = lay.pc * lay.pr > lay.c * lay.r;
        let [l, t, r, b] = k.recv.m;
        if has_outside {
            if l > 0 && t > 0 && r > 0 && b > 0 {
                ctx.class("window-interior");
            }
            if l == 0 || t == 0 || r == 0 || b == 0 {
                ctx.class("window-touching-an-edge");
            }
            if lay.c == 1 || lay.r == 1 {
                ctx.class("window-single-line");
            }
            if lay.c == 0 {
                ctx.class("window-empty");
            }
        } else {
            ctx.class("window-full");
        }
        if has_outside && out.changed_inside {
            ctx.nt();
        }
        Ok(())
    }
    fn essential_classes() -> &'static [&'static str] {
        &["SliceMut", "window-interior", "window-touching-an-edge", "window-single-line", "window-empty", "Nested", "ThinView", "ViewMut", "copy_within", "rows_mut", "col_mut", "cells_mut", "sort_unstable_by_col_key", "translate_with_wrap", "swap_rows", "row_pair_mut", "sequence-of-operations"]
    }
}
