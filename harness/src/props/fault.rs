//! C11 (a panic in caller-supplied code leaves a valid array) and C12 (leaking a drain,
//! iterator or view leaves a valid array): fault enumeration.  For every operation that runs
//! caller code the number N of calls into caller code is measured with the fuse off, then the
//! identical start state is rebuilt for every k < N with the k-th call panicking.

use super::structural::{build, cells_live_distinct, ids_of, shape_invariant, Axis};
use crate::cases::*;
use crate::elem::{self, tick, Bx, Elem, Tr, Zs};
use crate::runner::*;
use crate::{ensure, fail};
use proptest::prelude::*;
use serde::{Deserialize, Serialize};
use std::collections::hash_map::DefaultHasher;
use std::collections::{HashSet, VecDeque};
use std::hash::{Hash, Hasher};
use toodee::*;

#[derive(Serialize, Deserialize, Clone, Copy, Debug, PartialEq, Eq)]
pub enum Report {
    /// len() tells the truth
    True,
    /// len() reports what the array expects, whatever the iterator really holds
    Expected,
    Zero,
    Max,
    HalfMax,
    Plus(i8),
    /// a fickle iterator: the answers of the first, second and all later len() / size_hint()
    /// calls; codes 0 = truth, 1 = what the array expects, 2 = zero, 3 = usize::MAX, 4 = truth + 1, 5 = truth - 1
    Seq(u8, u8, u8),
}

#[derive(Serialize, Deserialize, Clone, Debug, PartialEq)]
pub enum FOp {
    New,
    Init,
    Fill,
    ViewFill,
    CloneArr,
    /// `a.clone_from(&b)` where b has a different shape
    CloneFromOther { dc: i8, dr: i8 },
    CloneFromSlice,
    CloneFromToodee,
    ViewCloneFromSlice,
    ViewCloneFromToodee,
    FromView,
    FromViewMut,
    /// `yield_delta`: how many items the iterator really holds relative to the expected count
    Insert { axis: Axis, push: bool, at: u8, yield_delta: i8, report: Report },
    Remove { axis: Axis, pop: bool, at: u8, front: u8, back: u8, #[serde(default)] skip: u8 },
    Clear,
    /// form 0..11: the eleven sort variants (0..6 by row, 6..11 by column)
    Sort { form: u8, line: u8 },
    EqSelf,
    HashSelf,
}

#[derive(Serialize, Deserialize, Clone, Debug, PartialEq)]
pub struct FaultCase {
    pub elem: ElemKind,
    pub cols: u8,
    pub rows: u8,
    pub exact_cap: bool,
    pub op: FOp,
    pub fuse: Fuse,
}

/// Which call into caller code panics.
#[derive(Serialize, Deserialize, Clone, Copy, Debug, PartialEq, Eq)]
pub enum Fuse {
    /// no fault
    None,
    /// the k-th call
    At(u32),
    /// the (frac * N >> 16)-th call, N measured by a fault-free run of the same case
    Frac(u16),
    /// every k in 0..N, one after the other, each from the identical start state
    All,
}

/// The harness' own element iterator: every method is caller code.
pub struct FIter<E> {
    items: VecDeque<E>,
    report: Report,
    expected: usize,
    asked: std::cell::Cell<u32>,
}
impl<E> FIter<E> {
    pub fn new(items: Vec<E>, report: Report, expected: usize) -> FInto<E> {
        FInto(FIter { items: items.into(), report, expected, asked: std::cell::Cell::new(0) })
    }
    fn reported(&self) -> usize {
        match self.report {
            Report::True => self.items.len(),
            Report::Expected => self.expected,
            Report::Zero => 0,
            Report::Max => usize::MAX,
            Report::HalfMax => usize::MAX / 2,
            Report::Plus(d) => (self.items.len() as i64 + d as i64).max(0) as usize,
            Report::Seq(a, b, c) => {
                let n = self.asked.get();
                self.asked.set(n.saturating_add(1));
                match [a, b, c][n.min(2) as usize] % 6 {
                    0 => self.items.len(),
                    1 => self.expected,
                    2 => 0,
                    3 => usize::MAX,
                    4 => self.items.len() + 1,
                    _ => self.items.len().saturating_sub(1),
                }
            }
        }
    }
}
impl<E> Iterator for FIter<E> {
    type Item = E;
    fn next(&mut self) -> Option<E> {
        tick();
        self.items.pop_front()
    }
    fn size_hint(&self) -> (usize, Option<usize>) {
        tick();
        let n = self.reported();
        (n, Some(n))
    }
}
impl<E> DoubleEndedIterator for FIter<E> {
    fn next_back(&mut self) -> Option<E> {
        tick();
        self.items.pop_back()
    }
}
impl<E> ExactSizeIterator for FIter<E> {
    fn len(&self) -> usize {
        tick();
        self.reported()
    }
}
pub struct FInto<E>(FIter<E>);
impl<E> IntoIterator for FInto<E> {
    type Item = E;
    type IntoIter = FIter<E>;
    fn into_iter(self) -> FIter<E> {
        tick();
        self.0
    }
}

/// object-safe view of a drain
trait DrainLike<E> {
    fn next_(&mut self) -> Option<E>;
    fn next_back_(&mut self) -> Option<E>;
    fn nth_(&mut self, n: usize) -> Option<E>;
    fn nth_back_(&mut self, n: usize) -> Option<E>;
}
impl<E, D: Iterator<Item = E> + DoubleEndedIterator> DrainLike<E> for D {
    fn next_(&mut self) -> Option<E> {
        self.next()
    }
    fn next_back_(&mut self) -> Option<E> {
        self.next_back()
    }
    fn nth_(&mut self, n: usize) -> Option<E> {
        self.nth(n)
    }
    fn nth_back_(&mut self, n: usize) -> Option<E> {
        self.nth_back(n)
    }
}

fn mint_vec<E: Elem>(n: usize) -> Vec<E> {
    (0..n).map(|i| E::mint((i * 3 % 4) as u8)).collect()
}

/// Runs the operation of `k` on `t`. Returns Err(panic message) if it panicked.
/// `supplied` receives the ids handed to the operation.
fn run_op<E: Elem + Clone + Default + Ord + Hash>(t: &mut TooDee<E>, k: &FaultCase, fuse: Option<u64>, supplied: &mut Vec<u64>, held: &mut Vec<E>) -> Result<(), String> {
    let (c, r) = (t.num_cols(), t.num_rows());
    match &k.op {
        FOp::New => {
            elem::arm(fuse);
            let res = catch(|| TooDee::<E>::new(c, r));
            elem::disarm();
            res.map(|n| *t = n)
        }
        FOp::Init => {
            let v = E::mint(1);
            supplied.push(v.id());
            elem::arm(fuse);
            let res = catch(|| TooDee::<E>::init(c, r, v));
            elem::disarm();
            res.map(|n| *t = n)
        }
        FOp::Fill => {
            let v = E::mint(2);
            supplied.push(v.id());
            elem::arm(fuse);
            let res = catch(|| t.fill(v));
            elem::disarm();
            res
        }
        FOp::ViewFill => {
            let v = E::mint(2);
            supplied.push(v.id());
            let (s, e) = inner_window(c, r);
            elem::arm(fuse);
            let res = catch(|| t.view_mut(s, e).fill(v));
            elem::disarm();
            res
        }
        FOp::CloneArr => {
            elem::arm(fuse);
            let res = catch(|| t.clone());
            elem::disarm();
            res.map(|n| {
                // keep the clone: both must stay valid; the original is dropped here
                *t = n;
            })
        }
        FOp::CloneFromOther { dc, dr } => {
            let (oc, or) = ((c as i64 + *dc as i64).max(0) as usize, (r as i64 + *dr as i64).max(0) as usize);
            let (oc, or) = if oc == 0 || or == 0 { (0, 0) } else { (oc, or) };
            let other = TooDee::from_vec(oc, or, mint_vec::<E>(oc * or));
            elem::arm(fuse);
            let res = catch(|| t.clone_from(&other));
            elem::disarm();
            res
        }
        FOp::CloneFromSlice | FOp::ViewCloneFromSlice => {
            let view = matches!(k.op, FOp::ViewCloneFromSlice);
            let (s, e) = if view { inner_window(c, r) } else { ((0, 0), (c, r)) };
            let n = if e.0 > s.0 && e.1 > s.1 { (e.0 - s.0) * (e.1 - s.1) } else { 0 };
            let src = mint_vec::<E>(n);
            elem::arm(fuse);
            let res = catch(|| {
                if view {
                    t.view_mut(s, e).clone_from_slice(&src)
                } else {
                    t.clone_from_slice(&src)
                }
            });
            elem::disarm();
            res
        }
        FOp::CloneFromToodee | FOp::ViewCloneFromToodee => {
            let view = matches!(k.op, FOp::ViewCloneFromToodee);
            let (s, e) = if view { inner_window(c, r) } else { ((0, 0), (c, r)) };
            let (wc, wr) = if e.0 > s.0 && e.1 > s.1 { (e.0 - s.0, e.1 - s.1) } else { (0, 0) };
            let src = TooDee::from_vec(wc, wr, mint_vec::<E>(wc * wr));
            elem::arm(fuse);
            let res = catch(|| {
                if view {
                    t.view_mut(s, e).clone_from_toodee(&src)
                } else {
                    t.clone_from_toodee(&src)
                }
            });
            elem::disarm();
            res
        }
        FOp::FromView | FOp::FromViewMut => {
            let (s, e) = inner_window(c, r);
            let is_mut = matches!(k.op, FOp::FromViewMut);
            elem::arm(fuse);
            let res = catch(|| if is_mut { TooDee::from(t.view_mut(s, e)) } else { TooDee::from(t.view(s, e)) });
            elem::disarm();
            res.map(|n| {
                // the original stays, the copy is checked by dropping it under the ledger
                drop(n);
            })
        }
        FOp::Insert { axis, push, at, yield_delta, report } => {
            let (dim, other) = if *axis == Axis::Row { (r, c) } else { (c, r) };
            let expected = if c == 0 { 2 } else { other };
            let n = (expected as i64 + *yield_delta as i64).max(0) as usize;
            let v = mint_vec::<E>(n);
            supplied.extend(v.iter().map(|e| e.id()));
            let it = FInto(FIter { items: v.into(), report: *report, expected, asked: std::cell::Cell::new(0) });
            let at = (*at as usize).min(dim);
            elem::arm(fuse);
            let res = catch(move || match (*axis, *push) {
                (Axis::Row, false) => t.insert_row(at, it),
                (Axis::Row, true) => t.push_row(it),
                (Axis::Col, false) => t.insert_col(at, it),
                (Axis::Col, true) => t.push_col(it),
            });
            elem::disarm();
            res
        }
        FOp::Remove { axis, pop, at, front, back, skip } => {
            let dim = if *axis == Axis::Row { r } else { c };
            if dim == 0 {
                return Ok(());
            }
            let at = (*at as usize).min(dim - 1);
            let (front, back) = (*front, *back);
            // skipping consumption: nth(k-1) first / nth_back(k-1) last (the skipped elements are
            // dropped by the drain itself -- caller code again when their Drop is instrumented)
            let (sf, sb) = (*skip & 15, *skip >> 4);
            elem::arm(fuse);
            let res = catch(move || {
                let drive = |d: &mut dyn DrainLike<E>, f: u8, b: u8, held: &mut Vec<E>| {
                    if sf > 0 {
                        if let Some(e) = d.nth_(sf as usize - 1) {
                            held.push(e);
                        }
                    }
                    drive0(d, f, b, held);
                    if sb > 0 {
                        if let Some(e) = d.nth_back_(sb as usize - 1) {
                            held.push(e);
                        }
                    }
                };
                fn drive0<E>(d: &mut dyn DrainLike<E>, f: u8, b: u8, held: &mut Vec<E>) {
                    for _ in 0..f {
                        if let Some(e) = d.next_() {
                            held.push(e);
                        }
                    }
                    for _ in 0..b {
                        if let Some(e) = d.next_back_() {
                            held.push(e);
                        }
                    }
                }
                match (*axis, *pop) {
                    (Axis::Row, false) => drive(&mut t.remove_row(at), front, back, held),
                    (Axis::Row, true) => drive(&mut t.pop_row().unwrap(), front, back, held),
                    (Axis::Col, false) => drive(&mut t.remove_col(at), front, back, held),
                    (Axis::Col, true) => drive(&mut t.pop_col().unwrap(), front, back, held),
                }
            });
            elem::disarm();
            res
        }
        FOp::Clear => {
            elem::arm(fuse);
            let res = catch(|| t.clear());
            elem::disarm();
            res
        }
        FOp::Sort { form, line } => {
            let form = *form % 11;
            let dim = if form < 6 { r } else { c };
            if dim == 0 {
                return Ok(());
            }
            let l = (*line as usize).min(dim - 1);
            elem::arm(fuse);
            let res = catch(|| match form {
                0 => t.sort_by_row(l, |a, b| {
                    tick();
                    a.key().cmp(&b.key())
                }),
                1 => t.sort_by_row_key(l, |a| {
                    tick();
                    a.key()
                }),
                2 => t.sort_row_ord::<()>(l),
                3 => t.sort_unstable_by_row(l, |a, b| {
                    tick();
                    a.key().cmp(&b.key())
                }),
                4 => t.sort_unstable_by_row_key(l, |a| {
                    tick();
                    a.key()
                }),
                5 => t.sort_unstable_row_ord::<()>(l),
                6 => t.sort_by_col(l, |a, b| {
                    tick();
                    a.key().cmp(&b.key())
                }),
                7 => t.sort_by_col_key(l, |a| {
                    tick();
                    a.key()
                }),
                8 => t.sort_col_ord::<()>(l),
                9 => t.sort_unstable_by_col(l, |a, b| {
                    tick();
                    a.key().cmp(&b.key())
                }),
                _ => t.sort_unstable_by_col_key(l, |a| {
                    tick();
                    a.key()
                }),
            });
            elem::disarm();
            res
        }
        FOp::EqSelf => {
            let other = TooDee::from_vec(c, r, mint_vec::<E>(c * r));
            // same keys so that the comparison visits every cell
            let other = {
                let mut o = other;
                for (a, b) in o.data_mut().iter_mut().zip(t.data().iter()) {
                    *a = E::mint(b.key());
                }
                o
            };
            elem::arm(fuse);
            let res = catch(|| {
                let _ = *t == other;
            });
            elem::disarm();
            res
        }
        FOp::HashSelf => {
            elem::arm(fuse);
            let res = catch(|| {
                let mut h = DefaultHasher::new();
                t.hash(&mut h);
                let _ = h.finish();
            });
            elem::disarm();
            res
        }
    }
}

fn inner_window(c: usize, r: usize) -> ((usize, usize), (usize, usize)) {
    if c == 0 {
        ((0, 0), (0, 0))
    } else {
        ((if c > 1 { 1 } else { 0 }, if r > 2 { 1 } else { 0 }), (c, r))
    }
}

/// Fault-free follow-up: the array must be safe to read, modify and drop.
fn follow_up<E: Elem + Clone>(t: &mut TooDee<E>, tag: &str) -> Verdict {
    let wrap = |v: Verdict, step: &str| v.map_err(|f| Failure { sig: format!("{}/follow-up/{}", tag, f.sig), msg: format!("follow-up step {}: {}", step, f.msg) });
    let chk = |t: &TooDee<E>, step: &str| -> Verdict {
        wrap(shape_invariant(t, step), step)?;
        wrap(cells_live_distinct(t, step), step)?;
        let dd = elem::double_drops();
        ensure!(dd.is_empty(), format!("{}/follow-up/double-drop", tag), "follow-up step {}: elements dropped twice {:?}", step, dd);
        Ok(())
    };
    // read everything
    let mut sum = 0u64;
    for y in 0..t.num_rows() {
        for x in 0..t.num_cols() {
            sum = sum.wrapping_add(t[(x, y)].id());
        }
    }
    let _ = sum;
    let c = t.num_cols();
    let r = catch(|| t.push_row(mint_vec::<E>(if c == 0 { 2 } else { c })));
    ensure!(r.is_ok(), format!("{}/follow-up/push_row-panicked", tag), "follow-up push_row of {} items on size {:?} panicked: {:?}", if c == 0 { 2 } else { c }, t.size(), r);
    chk(t, "push_row")?;
    let rr = t.num_rows();
    let r = catch(|| {
        let mut d = t.remove_col(0);
        let a = d.next();
        let b = if rr > 2 { d.next_back() } else { None };
        drop(d);
        (a, b)
    });
    ensure!(r.is_ok(), format!("{}/follow-up/remove_col-panicked", tag), "follow-up remove_col(0) panicked: {:?}", r.as_ref().err());
    let kept = r.unwrap();
    chk(t, "remove_col")?;
    let r = catch(|| t.fill(E::mint(3)));
    ensure!(r.is_ok(), format!("{}/follow-up/fill-panicked", tag), "follow-up fill panicked: {:?}", r);
    chk(t, "fill")?;
    if !t.is_empty() {
        t[(0, 0)] = E::mint(1);
        let last = (t.num_cols() - 1, t.num_rows() - 1);
        t[last] = E::mint(2);
    }
    chk(t, "indexed-writes")?;
    drop(kept);
    t.clear();
    chk(t, "clear")?;
    let r = catch(|| {
        t.push_col(mint_vec::<E>(3));
        t.push_row(mint_vec::<E>(1));
        t.insert_col(0, mint_vec::<E>(4));
    });
    ensure!(r.is_ok(), format!("{}/follow-up/regrow-panicked", tag), "follow-up regrow panicked: {:?}", r);
    chk(t, "regrow")?;
    ensure!(t.size() == (2, 4), format!("{}/follow-up/regrow-size", tag), "after clear + push_col(3) + push_row(1) + insert_col(0, 4) the size is {:?}", t.size());
    Ok(())
}

/// Conditions (1)-(3) of the C11/C12 oracle on the state right after the fault / leak.
fn validate_state<E: Elem>(t: &TooDee<E>, allowed: &HashSet<u64>, tag: &str, what: &str) -> Verdict {
    shape_invariant(t, what).map_err(|f| Failure { sig: format!("{}/{}", tag, f.sig), msg: f.msg })?;
    if E::TRACKED || E::UNIQUE {
        let mut seen = HashSet::new();
        for e in t.data() {
            let id = e.id();
            ensure!(!E::TRACKED || elem::is_live(id), format!("{}/reachable-but-dropped", tag), "{}: element {} is reachable through the array but was dropped", what, id);
            ensure!(seen.insert(id), format!("{}/duplicated", tag), "{}: element {} occurs twice in the array", what, id);
            ensure!(!E::TRACKED || allowed.contains(&id), format!("{}/foreign-element", tag), "{}: element {} was neither in the array before nor supplied to / created by the operation", what, id);
        }
    }
    let dd = elem::double_drops();
    ensure!(dd.is_empty(), format!("{}/double-drop", tag), "{}: elements dropped twice {:?}", what, dd);
    if E::ZST {
        let (cr, dr) = elem::zs_counts();
        ensure!(dr <= cr, format!("{}/zst-overdrop", tag), "{}: {} zero-sized values created but {} dropped", what, cr, dr);
    }
    Ok(())
}

fn op_tag(op: &FOp) -> String {
    match op {
        FOp::Insert { axis, push, .. } => format!("{}{}", if *push { "push" } else { "insert" }, if *axis == Axis::Row { "_row" } else { "_col" }),
        FOp::Remove { axis, pop, .. } => format!("{}{}", if *pop { "pop" } else { "remove" }, if *axis == Axis::Row { "_row" } else { "_col" }),
        FOp::Sort { form, .. } => format!("sort{}", form % 11),
        FOp::CloneFromOther { .. } => "clone_from".to_string(),
        other => format!("{:?}", other).to_lowercase(),
    }
}

fn run_fault<E: Elem + Clone + Default + Ord + Hash>(k: &FaultCase, ctx: &mut Ctx) -> Verdict {
    if E::ZST {
        let enormous = match k.op {
            FOp::Insert { report: Report::Max | Report::HalfMax, .. } => true,
            FOp::Insert { report: Report::Seq(a, b, c), .. } => [a, b, c].iter().any(|x| x % 6 == 3),
            _ => false,
        };
        if enormous {
            // a zero-sized element type with an enormous claimed length would loop ~2^63 times
            ctx.class("skipped-zst-enormous");
            return Ok(());
        }
    }
    match k.fuse {
        Fuse::None => run_fault_at::<E>(k, None, ctx),
        Fuse::At(f) => run_fault_at::<E>(k, Some(f as u64), ctx),
        Fuse::Frac(fr) => {
            let n = count_ticks::<E>(k);
            if n == 0 {
                run_fault_at::<E>(k, None, ctx)
            } else {
                run_fault_at::<E>(k, Some((fr as u64 * n) >> 16), ctx)
            }
        }
        Fuse::All => {
            let n = count_ticks::<E>(k).min(600);
            run_fault_at::<E>(k, None, ctx)?;
            for f in 0..n {
                elem::reset();
                run_fault_at::<E>(k, Some(f), ctx).map_err(|e| Failure { sig: e.sig, msg: format!("[fault point k={} of {}] {}", f, n, e.msg) })?;
            }
            Ok(())
        }
    }
}

fn run_fault_at<E: Elem + Clone + Default + Ord + Hash>(k: &FaultCase, fuse: Option<u64>, ctx: &mut Ctx) -> Verdict {
    let (mut t, _m) = build::<E>(k.cols as usize, k.rows as usize, k.exact_cap);
    let nonempty = !t.is_empty();
    let mut allowed: HashSet<u64> = ids_of(&t).into_iter().collect();
    let mut supplied = Vec::new();
    let mut held: Vec<E> = Vec::new();
    let tag = op_tag(&k.op);
    elem::start_minted_log();
    let res = run_op(&mut t, k, fuse, &mut supplied, &mut held);
    let minted = elem::take_minted_log();
    let fired = elem::fired();
    allowed.extend(supplied.iter().copied());
    allowed.extend(minted.iter().copied());
    ctx.class("fault-points-executed");
    match (&res, fired) {
        (Err(_), true) => ctx.class("fault-fired"),
        (Err(_), false) => ctx.class("panicked-without-fault(rejected)"),
        (Ok(()), true) => ctx.class("fault-fired-but-swallowed"),
        (Ok(()), false) => ctx.class("no-fault"),
    }
    if let FOp::Insert { yield_delta, report, .. } = k.op {
        if yield_delta != 0 || report != Report::True {
            ctx.class("lying-iterator");
            if res.is_ok() {
                ctx.class("lying-iterator-accepted");
            }
        }
    }
    let what = format!("{} on {}x{} ({}) fuse {:?} -> {}", tag, k.cols, k.rows, E::NAME, fuse, if res.is_err() { "panicked" } else { "returned" });
    validate_state(&t, &allowed, &tag, &what)?;
    for e in held.iter() {
        if E::TRACKED {
            ensure!(elem::is_live(e.id()), format!("{}/yielded-item-dropped", tag), "{}: an element the drain handed out ({}) was dropped", what, e.id());
            ensure!(!t.data().iter().any(|x| x.id() == e.id()), format!("{}/yielded-item-still-in-array", tag), "{}: element {} was handed out by the drain and is still in the array", what, e.id());
        }
    }
    follow_up(&mut t, &tag)?;
    drop(t);
    drop(held);
    let dd = elem::double_drops();
    ensure!(dd.is_empty(), format!("{}/double-drop-at-end", tag), "{}: elements dropped twice by the end {:?}", what, dd);
    if E::ZST {
        let (cr, dr) = elem::zs_counts();
        ensure!(dr <= cr, format!("{}/zst-overdrop-at-end", tag), "{}: {} zero-sized values created but {} dropped", what, cr, dr);
    }
    if fired && nonempty {
        ctx.nt();
    }
    ctx.class(E::NAME);
    Ok(())
}

/// number of calls into caller code the operation makes with the fuse off
fn count_ticks<E: Elem + Clone + Default + Ord + Hash>(k: &FaultCase) -> u64 {
    elem::reset();
    let (mut t, _) = build::<E>(k.cols as usize, k.rows as usize, k.exact_cap);
    let mut s = Vec::new();
    let mut h = Vec::new();
    // run_op arms with None (which resets the tick counter) and disarms; ticks() then
    // holds the number of calls made during the operation plus unwinding
    let _ = run_op(&mut t, k, None, &mut s, &mut h);
    let n = elem::ticks();
    drop(t);
    drop(h);
    elem::reset();
    n
}

fn all_ops(cols: u8, rows: u8) -> Vec<FOp> {
    let mut v = vec![FOp::New, FOp::Init, FOp::Fill, FOp::ViewFill, FOp::CloneArr, FOp::CloneFromOther { dc: 0, dr: 0 }, FOp::CloneFromOther { dc: 1, dr: 0 }, FOp::CloneFromOther { dc: -1, dr: 1 }, FOp::CloneFromOther { dc: 0, dr: -1 }, FOp::CloneFromOther { dc: 2, dr: 2 }, FOp::CloneFromSlice, FOp::CloneFromToodee, FOp::ViewCloneFromSlice, FOp::ViewCloneFromToodee, FOp::FromView, FOp::FromViewMut, FOp::Clear, FOp::EqSelf, FOp::HashSelf];
    for axis in [Axis::Row, Axis::Col] {
        let dim = if axis == Axis::Row { rows } else { cols };
        for at in 0..=dim {
            v.push(FOp::Insert { axis, push: false, at, yield_delta: 0, report: Report::True });
        }
        v.push(FOp::Insert { axis, push: true, at: 0, yield_delta: 0, report: Report::True });
        // lying iterators (at the middle index)
        let mid = dim / 2;
        for (yd, rep) in [(-1, Report::Expected), (1, Report::Expected), (3, Report::Expected), (0, Report::Plus(-1)), (0, Report::Plus(1)), (0, Report::Plus(3)), (0, Report::Zero), (0, Report::Max), (0, Report::HalfMax), (-1, Report::True), (1, Report::True),
            (0, Report::Seq(2, 0, 0)), (0, Report::Seq(2, 1, 1)), (0, Report::Seq(0, 2, 2)), (0, Report::Seq(0, 0, 2)), (0, Report::Seq(3, 0, 0)), (0, Report::Seq(0, 3, 0)), (0, Report::Seq(4, 0, 0)), (0, Report::Seq(0, 4, 0)), (0, Report::Seq(5, 0, 0)), (0, Report::Seq(0, 5, 5)), (1, Report::Seq(1, 0, 0)), (-1, Report::Seq(0, 1, 1))] {
            v.push(FOp::Insert { axis, push: false, at: mid, yield_delta: yd, report: rep });
            v.push(FOp::Insert { axis, push: true, at: 0, yield_delta: yd, report: rep });
        }
        if dim > 0 {
            let n = if axis == Axis::Row { cols } else { rows };
            for at in 0..dim {
                for (f, b) in [(0, 0), (1, 0), (0, 1), (1, 1), (n, 0)] {
                    v.push(FOp::Remove { axis, pop: false, at, front: f, back: b, skip: 0 });
                    v.push(FOp::Remove { axis, pop: false, at, front: f, back: b, skip: 0x12 });
                }
            }
            v.push(FOp::Remove { axis, pop: true, at: 0, front: 1, back: 0, skip: 0 });
            v.push(FOp::Remove { axis, pop: true, at: 0, front: 0, back: 1, skip: 0x21 });
        }
    }
    for form in 0..11u8 {
        let dim = if form < 6 { rows } else { cols };
        for line in 0..dim {
            v.push(FOp::Sort { form, line });
        }
    }
    v
}

pub struct C11;
impl Prop for C11 {
    type Case = FaultCase;
    const ID: &'static str = "C11";
    const LEVEL: &'static str = "fault_enumeration";
    fn rule() -> &'static str {
        "fault enumeration (one enumerated case = one (shape, operation) pair executed at EVERY fault point k; the class 'fault-points-executed' counts the (case,k) runs): for every operation that runs caller code (Default/Clone/Drop of elements, the harness' own ExactSizeIterator whose into_iter/len/size_hint/next/next_back are fault points, comparators, key functions, Ord, PartialEq, Hash) x every shape (0..=4)^2 x every index: N = calls into caller code with the fuse off, then one case per k in 0..N with the k-th call panicking, plus iterators whose len() lies (expected/true-1/+1/+3/0/usize::MAX/usize::MAX/2) or that yield fewer/more items than they report; random shapes up to 12x12 with random k. Oracle after catch_unwind: C01 shape invariant, reachable ids live + pairwise distinct + subset of (before, supplied, minted by the operation), no double drop, then a fixed fault-free follow-up (push_row, half-consumed remove_col, fill, indexed writes, clear, regrow, drop) under the same oracle. Non-trivial = the injected fault fired inside an operation on a non-empty array. Distinct = distinct (shape, op, k). Also: fickle iterators whose len() / size_hint() answers change between the first, second and later calls; drains consumed with nth / nth_back (the skipped elements' Drop is caller code); element type Nd (no drop glue, yet Clone / Default / comparisons are caller code)."
    }
    fn bound(_tier: Tier) -> String {
        "shapes (0..=4)^2, all insertion/removal indices, all 11 sort variants x all lines, every fault point k in 0..N, element types Tr, Bx, Zs".into()
    }
    fn enumerate(tier: Tier, emit: &mut dyn FnMut(FaultCase)) {
        let max = if tier == Tier::Quick { 4u8 } else { 5u8 };
        for elem in [ElemKind::Tr, ElemKind::Bx, ElemKind::Zs, ElemKind::Nd] {
            for cols in 0..=max {
                for rows in 0..=max {
                    if (cols == 0) != (rows == 0) {
                        continue;
                    }
                    for op in all_ops(cols, rows) {
                        let exact_cap = (cols + rows) % 2 == 0;
                        emit(FaultCase { elem, cols, rows, exact_cap, op, fuse: Fuse::All });
                    }
                }
            }
        }
    }
    fn strategy(_tier: Tier) -> BoxedStrategy<FaultCase> {
        let axis = || prop_oneof![Just(Axis::Row), Just(Axis::Col)];
        let report = prop_oneof![6 => Just(Report::True), 2 => Just(Report::Expected), 1 => Just(Report::Zero), 1 => Just(Report::Max), 1 => Just(Report::HalfMax), 2 => (-2i8..4).prop_map(Report::Plus), 3 => (0u8..6, 0u8..6, 0u8..6).prop_map(|(a, b, c)| Report::Seq(a, b, c))];
        let op = prop_oneof![
            2 => (-2i8..3, -2i8..3).prop_map(|(dc, dr)| FOp::CloneFromOther { dc, dr }),
            1 => Just(FOp::New), 1 => Just(FOp::Init), 1 => Just(FOp::Fill), 1 => Just(FOp::ViewFill), 1 => Just(FOp::CloneArr),
            1 => Just(FOp::CloneFromSlice), 1 => Just(FOp::CloneFromToodee), 1 => Just(FOp::ViewCloneFromSlice), 1 => Just(FOp::ViewCloneFromToodee),
            1 => Just(FOp::FromView), 1 => Just(FOp::FromViewMut), 1 => Just(FOp::Clear), 1 => Just(FOp::EqSelf), 1 => Just(FOp::HashSelf),
            10 => (axis(), prop::bool::weighted(0.25), 0u8..14, prop_oneof![6 => Just(0i8), 1 => Just(-1i8), 1 => Just(1i8), 1 => Just(3i8)], report).prop_map(|(axis, push, at, yield_delta, report)| FOp::Insert { axis, push, at, yield_delta, report }),
            8 => (axis(), prop::bool::weighted(0.25), 0u8..14, 0u8..6, 0u8..6, prop_oneof![2 => Just(0u8), 1 => (0u8..4, 0u8..4).prop_map(|(a, b)| a | (b << 4))]).prop_map(|(axis, pop, at, front, back, skip)| FOp::Remove { axis, pop, at, front, back, skip }),
            8 => (0u8..11, 0u8..14).prop_map(|(form, line)| FOp::Sort { form, line }),
        ];
        (proptest::sample::select(vec![ElemKind::Tr, ElemKind::Tr, ElemKind::Bx, ElemKind::Zs, ElemKind::Nd]), 0u8..=12, 0u8..=12, any::<bool>(), op, prop_oneof![1 => Just(Fuse::None), 9 => any::<u16>().prop_map(Fuse::Frac)])
            .prop_map(|(elem, cols, rows, exact_cap, op, fuse)| {
                let (cols, rows) = if cols == 0 || rows == 0 { (0, 0) } else { (cols, rows) };
                FaultCase { elem, cols, rows, exact_cap, op, fuse }
            })
            .boxed()
    }
    fn fuzz_sanitize(k: &mut FaultCase) -> bool {
        k.cols %= 7;
        k.rows %= 7;
        if k.cols == 0 || k.rows == 0 {
            k.cols = 0;
            k.rows = 0;
        }
        if k.elem == ElemKind::U32 {
            k.elem = ElemKind::Tr;
        }
        true
    }
    fn random_cases(tier: Tier) -> u64 {
        if tier == Tier::Quick { 150_000 } else { 2_000_000 }
    }
    fn execute(k: &FaultCase, ctx: &mut Ctx) -> Verdict {
        match k.elem {
            ElemKind::Tr | ElemKind::U32 | ElemKind::U128 | ElemKind::B3 | ElemKind::W40 => run_fault::<Tr>(k, ctx),
            ElemKind::Nd => run_fault::<crate::elem::Nd>(k, ctx),
            ElemKind::Bx => run_fault::<Bx>(k, ctx),
            ElemKind::Zs => run_fault::<Zs>(k, ctx),
        }
    }
    fn essential_classes() -> &'static [&'static str] {
        &["fault-fired", "lying-iterator", "no-fault", "Tr", "Bx", "Zs"]
    }
}

// ---------------------------------------------------------------------------------------------
// C12

#[derive(Serialize, Deserialize, Clone, Copy, Debug, PartialEq, Eq)]
pub enum Leakable {
    DrainRow,
    DrainCol,
    PopRow,
    PopCol,
    Rows,
    RowsMut,
    Col,
    ColMut,
    Cells,
    CellsMut,
    View,
    ViewMut,
    IntoIter,
}

#[derive(Serialize, Deserialize, Clone, Debug, PartialEq)]
pub struct LeakCase {
    pub elem: ElemKind,
    pub cols: u8,
    pub rows: u8,
    pub exact_cap: bool,
    pub what: Leakable,
    pub at: u8,
    pub front: u8,
    pub back: u8,
}

fn take_both<I: Iterator + DoubleEndedIterator>(it: &mut I, f: u8, b: u8) -> Vec<I::Item> {
    let mut v = Vec::new();
    for _ in 0..f {
        if let Some(x) = it.next() {
            v.push(x);
        }
    }
    for _ in 0..b {
        if let Some(x) = it.next_back() {
            v.push(x);
        }
    }
    v
}

fn run_leak<E: Elem + Clone>(k: &LeakCase, ctx: &mut Ctx) -> Verdict {
    let (mut t, _m) = build::<E>(k.cols as usize, k.rows as usize, k.exact_cap);
    let (c, r) = (t.num_cols(), t.num_rows());
    let before: HashSet<u64> = ids_of(&t).into_iter().collect();
    let before_vec = ids_of(&t);
    let mut held: Vec<E> = Vec::new();
    let tag = format!("leak-{:?}", k.what).to_lowercase();
    let (f, b) = (k.front, k.back);
    let mut consumed_array = false;
    let mut is_drain = false;
    let mut partial = false;
    let res = catch(|| match k.what {
        Leakable::DrainRow | Leakable::PopRow => {
            if r == 0 {
                return;
            }
            is_drain = true;
            let mut d = if k.what == Leakable::PopRow { t.pop_row().unwrap() } else { t.remove_row((k.at as usize).min(r - 1)) };
            held = take_both(&mut d, f, b);
            partial = !held.is_empty() && held.len() < c;
            std::mem::forget(d);
        }
        Leakable::DrainCol | Leakable::PopCol => {
            if c == 0 {
                return;
            }
            is_drain = true;
            let mut d = if k.what == Leakable::PopCol { t.pop_col().unwrap() } else { t.remove_col((k.at as usize).min(c - 1)) };
            held = take_both(&mut d, f, b);
            partial = !held.is_empty() && held.len() < r;
            std::mem::forget(d);
        }
        Leakable::Rows => {
            let mut it = t.rows();
            let _ = take_both(&mut it, f, b);
            std::mem::forget(it);
        }
        Leakable::RowsMut => {
            let mut it = t.rows_mut();
            for row in take_both(&mut it, f, b) {
                if let Some(x) = row.first_mut() {
                    *x = E::mint(1);
                }
            }
            std::mem::forget(it);
        }
        Leakable::Col => {
            if c == 0 {
                return;
            }
            let mut it = t.col((k.at as usize).min(c - 1));
            let _ = take_both(&mut it, f, b);
            std::mem::forget(it);
        }
        Leakable::ColMut => {
            if c == 0 {
                return;
            }
            let mut it = t.col_mut((k.at as usize).min(c - 1));
            for x in take_both(&mut it, f, b) {
                *x = E::mint(1);
            }
            std::mem::forget(it);
        }
        Leakable::Cells => {
            let mut it = t.cells();
            let _ = take_both(&mut it, f, b);
            std::mem::forget(it);
        }
        Leakable::CellsMut => {
            let mut it = t.cells_mut();
            for x in take_both(&mut it, f, b) {
                *x = E::mint(1);
            }
            std::mem::forget(it);
        }
        Leakable::View => {
            let v = t.view((0, 0), (c, r));
            let v2 = v.view((c.min(1), 0), (c, r));
            std::mem::forget(v2);
            std::mem::forget(v);
        }
        Leakable::ViewMut => {
            let mut v = t.view_mut((c.min(1), 0), (c, r));
            if !v.is_empty() {
                v[(0, 0)] = E::mint(2);
            }
            std::mem::forget(v);
        }
        Leakable::IntoIter => {
            consumed_array = true;
            let mut it = std::mem::take(&mut t).into_iter();
            held = take_both(&mut it, f, b);
            std::mem::forget(it);
        }
    });
    if let Err(msg) = res {
        fail!(format!("{}/panicked", tag), "creating / consuming the {:?} of a {}x{} array panicked: {}", k.what, c, r, msg);
    }
    let what = format!("{:?} of a {}x{} array ({}) leaked after {} front / {} back items (index {})", k.what, c, r, E::NAME, f, b, k.at);
    // the writes through the *_mut iterators mint new ids: allow everything minted in this case
    let mut allowed = before.clone();
    if E::TRACKED {
        allowed.extend(elem::live_ids());
    }
    validate_state(&t, &allowed, &tag, &what)?;
    if E::TRACKED || E::UNIQUE {
        for e in held.iter() {
            ensure!(!E::TRACKED || elem::is_live(e.id()), format!("{}/yielded-item-dropped", tag), "{}: a handed-out element ({}) was dropped", what, e.id());
            ensure!(!t.data().iter().any(|x| x.id() == e.id()), format!("{}/yielded-item-still-in-array", tag), "{}: element {} was handed out and is still in the array (would be dropped twice)", what, e.id());
        }
    }
    if !is_drain && !consumed_array {
        // leaking a borrow must not change the array at all (apart from the writes made)
        ensure!(t.size() == (c, r), format!("{}/size-changed", tag), "{}: size changed from ({},{}) to {:?}", what, c, r, t.size());
        if matches!(k.what, Leakable::Rows | Leakable::Col | Leakable::Cells | Leakable::View) && !E::ZST {
            ensure!(ids_of(&t) == before_vec, format!("{}/cells-changed", tag), "{}: cells changed", what);
        }
    }
    follow_up(&mut t, &tag)?;
    drop(t);
    drop(held);
    let dd = elem::double_drops();
    ensure!(dd.is_empty(), format!("{}/double-drop-at-end", tag), "{}: elements dropped twice by the end {:?}", what, dd);
    if is_drain && (partial || ((k.what == Leakable::DrainRow && r > 1 && (k.at as usize) < r - 1) || (k.what == Leakable::DrainCol && c > 1 && (k.at as usize) < c - 1))) {
        ctx.nt();
    }
    ctx.class(&format!("{:?}", k.what));
    if partial {
        ctx.class("leaked-after-partial-consumption");
    }
    Ok(())
}

pub struct C12;
impl Prop for C12 {
    type Case = LeakCase;
    fn heavy(k: &LeakCase) -> bool {
        k.cols as usize * k.rows as usize > 2500
    }
    const ID: &'static str = "C12";
    const LEVEL: &'static str = "fault_enumeration";
    fn rule() -> &'static str {
        "leak enumeration: every value with a destructor or borrow that the API returns (DrainRow, DrainCol, pop forms, Rows, RowsMut, Col, ColMut, Cells, CellsMut, TooDeeView, TooDeeViewMut, IntoIter) x shapes (0..=5)^2 x every index x every (front,back) consumption with front+back <= n, then mem::forget; random shapes up to 14x14. Oracle: C01 shape invariant, reachable ids live + pairwise distinct + subset of the original (or written by the harness), no double drop now, after the fixed follow-up, or at the final drop; handed-out items are not also still in the array. Non-trivial = drain of a non-last line leaked, or a drain leaked after partial consumption. Distinct = distinct case tuple. Also: 40-byte and 16-byte element types and arrays of more than a megabyte (up to 255x255)."
    }
    fn bound(_tier: Tier) -> String {
        "shapes (0..=5)^2, every line index, every (front,back) split, 13 leakable kinds, element types Tr, Bx (heap-owning), Zs (zero-sized) and u32 (no drop glue: only duplication is observable)".into()
    }
    fn enumerate(_tier: Tier, emit: &mut dyn FnMut(LeakCase)) {
        use Leakable::*;
        // arrays of more than a megabyte: drains of the first, a middle and the last line
        for (elem, cols, rows) in [(ElemKind::W40, 180u8, 170u8), (ElemKind::U128, 255, 255), (ElemKind::W40, 255, 110)] {
            for what in [DrainRow, DrainCol, PopRow, PopCol] {
                for at in [0u8, 7, 100, 254] {
                    for (front, back) in [(0u8, 0u8), (2, 1)] {
                        emit(LeakCase { elem, cols, rows, exact_cap: at % 2 == 0, what, at, front, back });
                    }
                }
            }
        }
        for elem in [ElemKind::Tr, ElemKind::Bx, ElemKind::Zs, ElemKind::U32, ElemKind::W40] {
            for cols in 0u8..=5 {
                for rows in 0u8..=5 {
                    if (cols == 0) != (rows == 0) {
                        continue;
                    }
                    for what in [DrainRow, DrainCol, PopRow, PopCol, Rows, RowsMut, Col, ColMut, Cells, CellsMut, View, ViewMut, IntoIter] {
                        let (dim, n) = match what {
                            DrainRow => (rows, cols),
                            DrainCol | Col | ColMut => (cols, rows),
                            PopRow => (1, cols),
                            PopCol => (1, rows),
                            Rows | RowsMut => (1, rows),
                            Cells | CellsMut | IntoIter => (1, (cols * rows).min(7)),
                            View | ViewMut => (1, 0),
                        };
                        for at in 0..dim.max(1) {
                            for f in 0..=n {
                                for b in 0..=(n - f) {
                                    emit(LeakCase { elem, cols, rows, exact_cap: (f + b) % 2 == 0, what, at, front: f, back: b });
                                }
                            }
                        }
                    }
                }
            }
        }
    }
    fn strategy(_tier: Tier) -> BoxedStrategy<LeakCase> {
        use Leakable::*;
        let small = (proptest::sample::select(vec![ElemKind::Tr, ElemKind::Bx, ElemKind::U32, ElemKind::W40, ElemKind::U128]), prop_oneof![49 => 0u8..=14, 1 => 0u8..=60], prop_oneof![49 => 0u8..=14, 1 => 0u8..=60], any::<bool>(), proptest::sample::select(vec![DrainRow, DrainRow, DrainCol, DrainCol, DrainCol, PopRow, PopCol, Rows, RowsMut, Col, ColMut, Cells, CellsMut, View, ViewMut, IntoIter]), 0u8..14, 0u8..16, 0u8..16)
            .prop_map(|(elem, cols, rows, exact_cap, what, at, front, back)| {
                let (cols, rows) = if cols == 0 || rows == 0 { (0, 0) } else { (cols, rows) };
                LeakCase { elem, cols, rows, exact_cap, what, at, front, back }
            });
        // arrays of more than a megabyte (plain element types only)
        let big = (proptest::sample::select(vec![ElemKind::U32, ElemKind::W40, ElemKind::W40, ElemKind::U128]), 160u8..=255, 160u8..=255, any::<bool>(), proptest::sample::select(vec![DrainRow, DrainRow, DrainCol, DrainCol, PopRow, PopCol, RowsMut, ColMut, CellsMut, ViewMut, IntoIter]), 0u8..=255, 0u8..16, 0u8..16)
            .prop_map(|(elem, cols, rows, exact_cap, what, at, front, back)| LeakCase { elem, cols, rows, exact_cap, what, at, front, back });
        prop_oneof![400 => small, 1 => big].boxed()
    }
    fn fuzz_sanitize(k: &mut LeakCase) -> bool {
        k.cols %= 15;
        k.rows %= 15;
        if k.cols == 0 || k.rows == 0 {
            k.cols = 0;
            k.rows = 0;
        }
        true
    }
    fn random_cases(tier: Tier) -> u64 {
        if tier == Tier::Quick { 300_000 } else { 4_000_000 }
    }
    fn execute(k: &LeakCase, ctx: &mut Ctx) -> Verdict {
        match k.elem {
            ElemKind::Tr => run_leak::<Tr>(k, ctx),
            ElemKind::U32 => run_leak::<u32>(k, ctx),
            ElemKind::U128 => run_leak::<u128>(k, ctx),
            ElemKind::B3 => run_leak::<crate::elem::B3>(k, ctx),
            ElemKind::Nd => run_leak::<crate::elem::Nd>(k, ctx),
            ElemKind::W40 => run_leak::<crate::elem::W40>(k, ctx),
            ElemKind::Bx => run_leak::<Bx>(k, ctx),
            ElemKind::Zs => run_leak::<Zs>(k, ctx),
        }
    }
    fn essential_classes() -> &'static [&'static str] {
        &["DrainRow", "DrainCol", "RowsMut", "ColMut", "CellsMut", "ViewMut", "IntoIter", "leaked-after-partial-consumption"]
    }
}
