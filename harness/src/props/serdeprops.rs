//! C18 (serialisation round-trips every array, through four serde_json transports, and views
//! round-trip to an owned copy) and C19 (deserialisation accepts only consistent documents and
//! never panics; documents generated from a grammar).

use super::grid::{layout, small_margin, Recv};
use crate::runner::*;
use crate::{ensure, fail};
use proptest::prelude::*;
use serde::de::DeserializeOwned;
use serde::{Deserialize, Serialize};
use serde_json::Value;
use std::fmt::Debug;
use toodee::*;

#[derive(Serialize, Deserialize, Clone, Copy, Debug, PartialEq, Eq)]
pub enum Transport {
    Str,
    Slice,
    Reader,
    Value,
}
pub fn transport() -> impl Strategy<Value = Transport> {
    prop_oneof![Just(Transport::Str), Just(Transport::Slice), Just(Transport::Reader), Just(Transport::Value)]
}

#[derive(Serialize, Deserialize, Clone, Copy, Debug, PartialEq, Eq)]
pub enum DocElem {
    U32,
    I64,
    Str,
    OptU32,
    Bytes,
    Nested,
    /// `()`: a zero-sized element type (JSON null)
    #[serde(alias = "Zst")]
    Unit,
    /// 128-bit integers (serde's buffered `Content` cannot hold them)
    U128,
    I128,
    /// cells that are maps with integer keys
    Map,
    /// cells that are enums / tuples / chars
    Mixed,
}

#[derive(Serialize, Deserialize, Clone, Debug, PartialEq)]
pub struct Trip {
    pub elem: DocElem,
    pub cols: u8,
    pub rows: u8,
    /// pool of integers / strings the cells are drawn from (cycled)
    pub ints: Vec<i64>,
    pub strs: Vec<String>,
    /// Some(margins): serialise a (strided) view / mutable view of a bigger u32 parent
    pub view: Option<([u8; 4], bool)>,
    pub transport: Transport,
    /// overrides (cols, rows): a few very large arrays (size-dependent fast paths)
    #[serde(default)]
    pub big: Option<(u32, u32)>,
    /// structural steps applied to the array before it is serialised (spare capacity, a buffer
    /// that was shifted around, dimensions exchanged): 0 push_row, 1 pop_row, 2 insert_col(0),
    /// 3 remove_col(last), 4 insert_row(0), 5 remove_row(0), 6 swap_dimensions, 7 reserve(64),
    /// 8 shrink_to_fit, 9 clear then push two rows
    #[serde(default)]
    pub prep: Vec<u8>,
    /// this many documents that must be REJECTED (an unreadable cell, a wrong length, a missing
    /// field) are fed to the deserialiser first: rejecting them must not disturb later round trips
    #[serde(default)]
    pub noise: u8,
}

fn decode<T: DeserializeOwned>(text: &str, tr: Transport) -> Result<Result<TooDee<T>, String>, String> {
    // the byte transports also see input that is not UTF-8
    let mut bytes = std::borrow::Cow::Borrowed(text.as_bytes());
    if text.contains(BAD_BYTE) && matches!(tr, Transport::Slice | Transport::Reader) {
        let mut b = Vec::new();
        for ch in text.chars() {
            if ch == BAD_BYTE {
                b.push(0xff);
            } else {
                b.extend_from_slice(ch.encode_utf8(&mut [0u8; 4]).as_bytes());
            }
        }
        bytes = std::borrow::Cow::Owned(b);
    }
    catch(|| match tr {
        Transport::Str => serde_json::from_str::<TooDee<T>>(text).map_err(|e| e.to_string()),
        Transport::Slice => serde_json::from_slice::<TooDee<T>>(&bytes).map_err(|e| e.to_string()),
        Transport::Reader => serde_json::from_reader::<_, TooDee<T>>(std::io::Cursor::new(&bytes[..])).map_err(|e| e.to_string()),
        Transport::Value => match serde_json::from_str::<Value>(text) {
            Ok(v) => serde_json::from_value::<TooDee<T>>(v).map_err(|e| e.to_string()),
            Err(e) => Err(format!("(not JSON) {}", e)),
        },
    })
}

fn encode<S: Serialize>(x: &S, tr: Transport) -> Result<String, String> {
    catch(|| match tr {
        Transport::Str => serde_json::to_string(x).unwrap(),
        Transport::Slice => String::from_utf8(serde_json::to_vec(x).unwrap()).unwrap(),
        Transport::Reader => {
            let mut w = Vec::new();
            serde_json::to_writer(&mut w, x).unwrap();
            String::from_utf8(w).unwrap()
        }
        Transport::Value => serde_json::to_value(x).unwrap().to_string(),
    })
}

/// the start of a long document (messages must stay readable)
fn short(text: &str) -> String {
    if text.len() <= 600 {
        text.to_string()
    } else {
        let mut e = 600;
        while !text.is_char_boundary(e) {
            e -= 1;
        }
        format!("{}... ({} bytes)", &text[..e], text.len())
    }
}

fn roundtrip<T: Serialize + DeserializeOwned + PartialEq + Debug + Clone>(t: &TooDee<T>, tr: Transport) -> Verdict {
    let full = match encode(t, tr) {
        Ok(s) => s,
        Err(m) => fail!("serialize-panicked", "serialising a {}x{} array panicked: {}", t.num_cols(), t.num_rows(), m),
    };
    let text_short = short(&full);
    let text = &full;
    let back = match decode::<T>(text, tr) {
        Err(m) => fail!("deserialize-panicked", "deserialising {} via {:?} panicked: {}", text_short, tr, m),
        Ok(Err(e)) => fail!(format!("roundtrip-rejected/{:?}", tr), "a {}x{} array serialised to {} but deserialising it via {:?} fails: {}", t.num_cols(), t.num_rows(), text_short, tr, e),
        Ok(Ok(b)) => b,
    };
    ensure!(back.size() == t.size(), format!("roundtrip-size/{:?}", tr), "a {}x{} array came back via {:?} with size {:?} (document {})", t.num_cols(), t.num_rows(), tr, back.size(), text_short);
    if back.data() != t.data() {
        let i = (0..t.data().len().min(back.data().len())).find(|&i| back.data()[i] != t.data()[i]);
        fail!(format!("roundtrip-cells/{:?}", tr), "a {}x{} array came back via {:?} with different cells: first difference at {:?} ({} vs {} cells; document {})", t.num_cols(), t.num_rows(), tr, i.map(|i| (i, &back.data()[i], &t.data()[i])), back.data().len(), t.data().len(), text_short);
    }
    ensure!(&back == t, format!("roundtrip-eq/{:?}", tr), "round-tripped array != original although size and cells agree");
    Ok(())
}

fn build<T: Clone>(cols: usize, rows: usize, f: impl Fn(usize) -> T) -> TooDee<T> {
    let (c, r) = if cols == 0 || rows == 0 { (0, 0) } else { (cols, rows) };
    TooDee::from_vec(c, r, (0..c * r).map(f).collect())
}

/// apply the preparation steps (all valid by construction; see `Trip::prep`)
fn prepare<T: Clone>(t: &mut TooDee<T>, prep: &[u8], f: impl Fn(usize) -> T) {
    let mut n = 1000;
    let mut fresh = |k: usize| -> Vec<T> {
        let v: Vec<T> = (n..n + k).map(&f).collect();
        n += k;
        v
    };
    for p in prep.iter().take(12) {
        let (c, r) = t.size();
        match p % 10 {
            0 => t.push_row(fresh(if c == 0 { 2 } else { c })),
            1 => drop(t.pop_row()),
            2 => t.insert_col(0, fresh(if r == 0 { 3 } else { r })),
            3 => drop(t.pop_col()),
            4 => t.insert_row(0, fresh(if c == 0 { 1 } else { c })),
            5 => {
                if r > 0 {
                    drop(t.remove_row(0));
                }
            }
            6 => t.swap_dimensions(),
            7 => t.reserve(64),
            8 => t.shrink_to_fit(),
            _ => {
                t.clear();
                t.push_row(fresh(3));
                t.push_row(fresh(3));
            }
        }
    }
}

fn roundtrip_prepared<T: Serialize + DeserializeOwned + PartialEq + Debug + Clone>(mut t: TooDee<T>, prep: &[u8], f: impl Fn(usize) -> T, tr: Transport) -> Verdict {
    prepare(&mut t, prep, f);
    roundtrip(&t, tr)
}

fn make_noise(n: u8, tr: Transport) {
    const BAD: [&str; 6] = [
        r#"{"num_cols":1,"num_rows":1,"data":[{"x":[]}]}"#,
        r#"{"num_cols":1,"num_rows":2,"data":[1]}"#,
        r#"{"num_cols":1,"num_rows":1}"#,
        r#"{"num_cols":1,"num_rows":1,"data":[[[[[[1]]]]]]}"#,
        r#"{"num_cols":2,"num_rows":1,"data":[1,"x"]}"#,
        r#"{"num_cols":1,"num_rows":1,"data":[1"#,
    ];
    for i in 0..n.min(8) as usize {
        let _ = decode::<u32>(BAD[i % BAD.len()], tr);
        let _ = decode::<TooDee<u32>>(BAD[(i + 3) % BAD.len()], tr);
    }
}

pub fn exec_trip(k: &Trip, ctx: &mut Ctx) -> Verdict {
    if k.noise > 0 {
        make_noise(k.noise, k.transport);
        ctx.class("after-rejected-documents");
    }
    let (cols, rows) = match k.big {
        Some((c, r)) => (c as usize, r as usize),
        None => (k.cols as usize, k.rows as usize),
    };
    let int = |i: usize| if k.ints.is_empty() { i as i64 } else { k.ints[i % k.ints.len()].wrapping_add((i / k.ints.len()) as i64) };
    let st = |i: usize| if k.strs.is_empty() { format!("s{}", i) } else { format!("{}{}", k.strs[i % k.strs.len()], if i >= k.strs.len() { i.to_string() } else { String::new() }) };
    if let Some((m, mutable)) = k.view {
        let rv = Recv::view(m);
        let lay = layout(cols, rows, &rv);
        let mut parent: TooDee<u32> = TooDee::from_vec(lay.pc, lay.pr, (0..lay.pc * lay.pr).map(|i| int(i) as u32).collect());
        let owned_copy: TooDee<u32> = TooDee::from(parent.view(lay.s1, lay.e1));
        let text = if mutable {
            let v = parent.view_mut(lay.s1, lay.e1);
            encode(&v, k.transport)
        } else {
            let v = parent.view(lay.s1, lay.e1);
            encode(&v, k.transport)
        };
        let text = match text {
            Ok(s) => s,
            Err(m) => fail!("view/serialize-panicked", "serialising a view panicked: {}", m),
        };
        let back = match decode::<u32>(&text, k.transport) {
            Err(m) => fail!("view/deserialize-panicked", "deserialising {} panicked: {}", short(&text), m),
            Ok(Err(e)) => fail!(format!("view/roundtrip-rejected/{:?}", k.transport), "a {}x{} window of a {}x{} parent serialised to {} but deserialising it fails: {}", lay.c, lay.r, lay.pc, lay.pr, short(&text), e),
            Ok(Ok(b)) => b,
        };
        ensure!(back.size() == owned_copy.size() && back.data() == owned_copy.data() && back == owned_copy, format!("view/roundtrip-differs/{:?}", k.transport), "a {}x{} window at {:?} of a {}x{} parent ({}) round-trips to size {:?} cells {:?}, but an owned copy of the view has size {:?} cells {:?} (document {})", lay.c, lay.r, lay.o, lay.pc, lay.pr, if mutable { "view_mut" } else { "view" }, back.size(), &back.data()[..back.data().len().min(64)], owned_copy.size(), &owned_copy.data()[..owned_copy.data().len().min(64)], short(&text));
        if lay.pc > lay.c && lay.c > 0 {
            ctx.class("strided-view");
            ctx.nt();
        }
        ctx.class(if mutable { "view_mut" } else { "view" });
        return Ok(());
    }
    match k.elem {
        DocElem::U32 => roundtrip_prepared(build(cols, rows, |i| int(i) as u32), &k.prep, |i| int(i) as u32, k.transport)?,
        DocElem::I64 => roundtrip_prepared(build(cols, rows, |i| int(i)), &k.prep, |i| int(i), k.transport)?,
        DocElem::Str => roundtrip_prepared(build(cols, rows, |i| st(i)), &k.prep, |i| st(i), k.transport)?,
        DocElem::OptU32 => roundtrip_prepared(build(cols, rows, |i| if int(i) % 3 == 0 { None } else { Some(int(i) as u32) }), &k.prep, |i| if int(i) % 3 == 0 { None } else { Some(int(i) as u32) }, k.transport)?,
        DocElem::Bytes => roundtrip_prepared(build(cols, rows, |i| st(i).into_bytes()), &k.prep, |i| st(i).into_bytes(), k.transport)?,
        DocElem::Nested => roundtrip(&build(cols, rows, |i| build((int(i).unsigned_abs() % 3) as usize, (i % 3) as usize, |j| (i * 10 + j) as u32)), k.transport)?,
        DocElem::Unit => roundtrip_prepared(build(cols, rows, |_| ()), &k.prep, |_| (), k.transport)?,
        DocElem::U128 => roundtrip_prepared(build(cols, rows, |i| int(i) as u64 as u128), &k.prep, |i| int(i) as u64 as u128, k.transport)?,
        DocElem::I128 => roundtrip_prepared(build(cols, rows, |i| int(i) as i128), &k.prep, |i| int(i) as i128, k.transport)?,
        DocElem::Map => {
            let f = |i: usize| -> std::collections::BTreeMap<u32, String> { (0..(i % 3) as u32).map(|j| (int(i + j as usize) as u32, st(i + j as usize))).collect() };
            roundtrip_prepared(build(cols, rows, f), &k.prep, f, k.transport)?
        }
        DocElem::Mixed => {
            // (no Option<()>: serde_json writes Some(()) as null and reads it back as None)
            let f = |i: usize| -> (char, Result<u8, String>, [i16; 2], Option<bool>) { (char::from_u32(0x20 + (int(i).unsigned_abs() % 0xd000) as u32).unwrap_or('x'), if i % 2 == 0 { Ok(i as u8) } else { Err(st(i)) }, [int(i) as i16, -1], if i % 3 == 0 { None } else { Some(i % 2 == 0) }) };
            roundtrip_prepared(build(cols, rows, f), &k.prep, f, k.transport)?
        }
    }
    if !k.prep.is_empty() {
        ctx.class("array-built-by-a-structural-history");
        ctx.nt();
    }
    let nonempty = cols > 0 && rows > 0;
    if nonempty && matches!(k.transport, Transport::Reader | Transport::Value) {
        ctx.nt();
        ctx.class("non-empty-via-reader-or-value");
    }
    if !nonempty {
        ctx.class("empty-array");
        ctx.nt();
    }
    if k.elem == DocElem::Str && k.strs.iter().any(|s| s.chars().any(|c| c == '"' || c == '\\' || (c as u32) < 0x20 || (c as u32) > 0x7f)) {
        ctx.class("string-needing-escapes");
        ctx.nt();
    }
    if cols == 1 || rows == 1 {
        ctx.class("single-line");
    }
    ctx.class(&format!("{:?}", k.elem));
    ctx.class(&format!("{:?}", k.transport));
    Ok(())
}

fn nasty_string() -> impl Strategy<Value = String> {
    prop_oneof![
        3 => "[ -~]{0,12}",
        3 => "\\PC{0,8}",
        2 => prop::collection::vec(any::<char>(), 0..6).prop_map(|v| v.into_iter().collect::<String>()),
        2 => proptest::sample::select(vec!["\"", "\\", "\\\"", "\u{0}", "\n\r\t", "\u{7f}", "\u{d7ff}\u{e000}", "\u{fffd}\u{ffff}", "\u{10ffff}", "num_cols", "{\"data\":[]}", "\u{2028}\u{2029}", "é😀", "\u{8}\u{c}/"]).prop_map(|s| s.to_string()),
    ]
}

pub struct C18;
impl Prop for C18 {
    type Case = Trip;
    fn heavy(k: &Trip) -> bool {
        k.big.map_or(false, |(c, r)| c as u64 * r as u64 > 2000) || k.cols as usize * k.rows as usize > 2000
    }
    const ID: &'static str = "C18";
    fn rule() -> &'static str {
        "round trip: arrays of shapes (0,0), 1xN, Nx1 and up to 6x6 with element types u32, i64, (), String (arbitrary Unicode incl. quotes, backslashes, control characters, surrogate-adjacent code points), Option<u32>, Vec<u8>, nested TooDee<u32>, serialised and deserialised through to_string/from_str, to_vec/from_slice, to_writer/from_reader and to_value/from_value; views and mutable views (strided windows of u32 parents) must round-trip to TooDee::from(view). Exhaustive over all shapes (0..=6)^2 x 6 element types x 4 transports and all windows of a 4x4 parent, random cell contents. Oracle: decoded == original (dimensions and every cell). No floats (NaN / precision would make the oracle flaky). Non-trivial = a non-empty array through from_reader / from_value, or an empty array, or a strided view, or a String needing escapes. Distinct = distinct case. Also: cells of u128 / i128 / BTreeMap<u32,String> / (char, Result, [i16;2], Option<bool>); arrays of > 2^18 u32, > 2^17 i64, > 2^16 String cells and () arrays with a dimension beyond 65535 through every transport; arrays that went through structural operations first (spare capacity, shifted buffers); round trips performed after documents that must be rejected."
    }
    fn bound(_t: Tier) -> String {
        "all shapes (0..=6)^2 x 6 element types x 4 transports; all window embeddings with margins in {0,1,2}^4 of shapes (0..=3)^2 x view/view_mut x 4 transports".into()
    }
    fn enumerate(_tier: Tier, emit: &mut dyn FnMut(Trip)) {
        for elem in [DocElem::U32, DocElem::I64, DocElem::Str, DocElem::OptU32, DocElem::Bytes, DocElem::Nested, DocElem::Unit, DocElem::U128, DocElem::I128, DocElem::Map, DocElem::Mixed] {
            for tr in [Transport::Str, Transport::Slice, Transport::Reader, Transport::Value] {
                for cols in 0u8..=6 {
                    for rows in 0u8..=6 {
                        if (cols == 0) != (rows == 0) {
                            continue;
                        }
                        emit(Trip { elem, cols, rows, ints: vec![0, -1, 7, i64::MAX, i64::MIN, 4294967295, 3], strs: vec!["".into(), "a\"b".into(), "\\".into(), "\u{0}\n".into(), "é😀".into()], view: None, transport: tr, big: None, prep: vec![], noise: 0 });
                    }
                }
            }
        }
        // a few large arrays and views around power-of-two cell counts (size-dependent fast paths)
        // round trips after many rejected documents (state kept between calls, if any, must not matter)
        for i in 0..48u8 {
            let tr = [Transport::Str, Transport::Slice, Transport::Reader, Transport::Value][i as usize % 4];
            emit(Trip { elem: if i % 2 == 0 { DocElem::U32 } else { DocElem::Nested }, cols: 2, rows: 1 + i % 3, ints: vec![i as i64, 7, 9], strs: vec![], view: None, transport: tr, big: None, prep: vec![], noise: 8 });
        }
        // arrays that went through structural operations before being serialised
        for tr in [Transport::Str, Transport::Slice, Transport::Reader, Transport::Value] {
            for elem in [DocElem::U32, DocElem::Str, DocElem::Unit] {
                for (cols, rows) in [(0u8, 0u8), (1, 1), (2, 3), (4, 2)] {
                    for prep in [vec![0u8], vec![1], vec![2], vec![3], vec![4, 5], vec![5, 0], vec![6], vec![7, 8], vec![9], vec![3, 3, 3, 3], vec![1, 1, 1], vec![2, 6, 0], vec![3, 2, 1, 0, 6, 5]] {
                        emit(Trip { elem, cols, rows, ints: vec![3, 1, 4, 1, 5, 9, 2, 6], strs: vec!["x".into(), "\"".into(), "".into()], view: None, transport: tr, big: None, prep, noise: 0 });
                    }
                }
            }
        }
        // every transport with more than 2^18 u32 cells / 2^17 i64 cells / 2^16 strings, and arrays of
        // `()` with a dimension beyond 65535
        for tr in [Transport::Str, Transport::Slice, Transport::Reader, Transport::Value] {
            emit(Trip { elem: DocElem::U32, cols: 1, rows: 1, ints: vec![1, 2, 3, 70000], strs: vec![], view: None, transport: tr, big: Some((600, 600)), prep: vec![], noise: 0 });
            emit(Trip { elem: DocElem::I64, cols: 1, rows: 1, ints: vec![-1, 2, i64::MAX], strs: vec![], view: None, transport: tr, big: Some((300, 450)), prep: vec![], noise: 0 });
            emit(Trip { elem: DocElem::Str, cols: 1, rows: 1, ints: vec![], strs: vec!["a".into(), "".into(), "\\u".into()], view: None, transport: tr, big: Some((260, 255)), prep: vec![], noise: 0 });
            emit(Trip { elem: DocElem::OptU32, cols: 1, rows: 1, ints: vec![0, 1, 2, 3, 4], strs: vec![], view: None, transport: tr, big: Some((1, 140_000)), prep: vec![], noise: 0 });
            emit(Trip { elem: DocElem::Unit, cols: 1, rows: 1, ints: vec![], strs: vec![], view: None, transport: tr, big: Some((70_000, 1)), prep: vec![], noise: 0 });
            emit(Trip { elem: DocElem::Unit, cols: 1, rows: 1, ints: vec![], strs: vec![], view: None, transport: tr, big: Some((2, 65_536)), prep: vec![], noise: 0 });
            emit(Trip { elem: DocElem::Unit, cols: 1, rows: 1, ints: vec![], strs: vec![], view: None, transport: tr, big: Some((65_537, 3)), prep: vec![], noise: 0 });
            emit(Trip { elem: DocElem::U32, cols: 1, rows: 1, ints: vec![6, 5], strs: vec![], view: Some(([1, 1, 0, 1], tr == Transport::Value)), transport: tr, big: Some((70_001, 4)), prep: vec![], noise: 0 });
        }
        for (i, (c, r)) in [(600u32, 450u32), (520, 505), (257, 256), (1030, 64)].into_iter().enumerate() {
            let tr = [Transport::Str, Transport::Slice, Transport::Reader, Transport::Value][i % 4];
            emit(Trip { elem: DocElem::U32, cols: 1, rows: 1, ints: vec![1, 2, 3], strs: vec![], view: None, transport: tr, big: Some((c, r)), prep: vec![], noise: 0 });
            emit(Trip { elem: DocElem::U32, cols: 1, rows: 1, ints: vec![4, 5, 6, 7], strs: vec![], view: Some(([0, 0, 0, 0], false)), transport: [Transport::Reader, Transport::Str, Transport::Slice, Transport::Value][i % 4], big: Some((c, r)), prep: vec![], noise: 0 });
            emit(Trip { elem: DocElem::U32, cols: 1, rows: 1, ints: vec![9, 8], strs: vec![], view: Some(([1, 0, 0, 1], true)), transport: tr, big: Some((c - 1, r)), prep: vec![], noise: 0 });
        }
        for (i, (cols, rows)) in [(255u8, 255u8), (255, 129), (128, 64), (65, 64)].into_iter().enumerate() {
            let tr = [Transport::Str, Transport::Slice, Transport::Reader, Transport::Value][i % 4];
            emit(Trip { elem: DocElem::U32, cols, rows, ints: vec![1, 2, 3], strs: vec![], view: None, transport: tr, big: None, prep: vec![], noise: 0 });
            emit(Trip { elem: DocElem::U32, cols, rows, ints: vec![4, 5, 6, 7], strs: vec![], view: Some(([0, 0, 0, 0], false)), transport: [Transport::Reader, Transport::Str, Transport::Slice, Transport::Value][i % 4], big: None, prep: vec![], noise: 0 });
            emit(Trip { elem: DocElem::U32, cols: cols - 1, rows, ints: vec![9, 8], strs: vec![], view: Some(([1, 0, 0, 1], true)), transport: tr, big: None, prep: vec![], noise: 0 });
        }
        for tr in [Transport::Str, Transport::Slice, Transport::Reader, Transport::Value] {
            for mutable in [false, true] {
                for cols in 0u8..=3 {
                    for rows in 0u8..=3 {
                        for l in 0u8..3 {
                            for t in 0u8..3 {
                                for r in 0u8..3 {
                                    for b in 0u8..2 {
                                        emit(Trip { elem: DocElem::U32, cols, rows, ints: vec![5, 9, 100, 7, 3, 1, 8], strs: vec![], view: Some(([l, t, r, b], mutable)), transport: tr, big: None, prep: vec![], noise: 0 });
                                    }
                                }
                            }
                        }
                    }
                }
            }
        }
    }
    fn strategy(_t: Tier) -> BoxedStrategy<Trip> {
        let shape = prop_oneof![6 => (0u8..=6, 0u8..=6), 1 => (1u8..=1, 1u8..=20), 1 => (1u8..=20, 1u8..=1)];
        let elem = prop_oneof![1 => Just(DocElem::U32), 1 => Just(DocElem::I64), 3 => Just(DocElem::Str), 1 => Just(DocElem::OptU32), 1 => Just(DocElem::Bytes), 1 => Just(DocElem::Nested), 1 => Just(DocElem::Unit), 1 => Just(DocElem::U128), 1 => Just(DocElem::I128), 1 => Just(DocElem::Map), 1 => Just(DocElem::Mixed)];
        (elem, shape, prop::collection::vec(any::<i64>(), 0..8), prop::collection::vec(nasty_string(), 0..6), prop::option::weighted(0.3, (small_margin(), any::<bool>())), transport(), prop_oneof![3 => Just(vec![]), 1 => prop::collection::vec(0u8..10, 1..8)], prop_oneof![3 => Just(0u8), 1 => 1u8..6])
            .prop_map(|(elem, (cols, rows), ints, strs, view, transport, prep, noise)| {
                let (cols, rows) = if view.is_none() && (cols == 0 || rows == 0) { (0, 0) } else { (cols, rows) };
                Trip { elem, cols, rows, ints, strs, view, transport, big: None, prep, noise }
            })
            .boxed()
    }
    fn fuzz_sanitize(k: &mut Trip) -> bool {
        k.prep.truncate(12);
        // (found by the thorough fuzz sweep at seed 1: an unbounded override made the HARNESS
        // allocate 70 GB; see DESIGN section 9)
        if let Some((c, r)) = k.big {
            // (byte-level fuzzing explores structure; the native tiers cover the megabyte documents.
            // A view adds margins to BOTH dimensions: (3.6e9, 0) passed a product-only bound and
            // the harness then built a 3.6e9 x 3 parent)
            if (c as u128 + 8) * (r as u128 + 8) > 6_000 {
                k.big = None;
            }
        }
        if k.cols > 240 && k.rows > 240 && matches!(k.elem, DocElem::U32 | DocElem::Unit) && k.view.is_none() {
            // keep the occasional very large array (cheap cell types only: one execution must stay
            // in the millisecond range under ASan)
        } else {
            k.cols %= 8;
            k.rows %= 8;
        }
        if let Some((m, _)) = &mut k.view {
            m.iter_mut().for_each(|x| *x %= 4);
        } else if k.cols == 0 || k.rows == 0 {
            k.cols = 0;
            k.rows = 0;
        }
        true
    }
    fn random_cases(tier: Tier) -> u64 {
        if tier == Tier::Quick { 200_000 } else { 3_000_000 }
    }
    fn execute(k: &Trip, ctx: &mut Ctx) -> Verdict {
        exec_trip(k, ctx)
    }
    fn essential_classes() -> &'static [&'static str] {
        &["non-empty-via-reader-or-value", "empty-array", "strided-view", "view_mut", "view", "string-needing-escapes", "Nested", "Str", "Reader", "Value", "Slice", "array-built-by-a-structural-history", "after-rejected-documents", "U128", "I128", "Map", "Mixed"]
    }
}

// ---------------------------------------------------------------------------------------------
// C19

#[derive(Serialize, Deserialize, Clone, Debug, PartialEq)]
pub enum Val {
    U(u64),
    I(i64),
    /// rendered verbatim: fractions, exponents, integers beyond u64
    Raw(String),
    S(String),
    Null,
    Bool(bool),
    Arr(Vec<Val>),
    Obj(Vec<(String, Val)>),
}

#[derive(Serialize, Deserialize, Clone, Debug, PartialEq)]
pub struct Doc {
    pub elem: DocElem,
    /// top level: Some(fields) = an object with these (key, value) pairs in this order
    pub fields: Option<Vec<(String, Val)>>,
    /// top level when `fields` is None
    pub top: Val,
    pub ws: u8,
    pub transport: Transport,
}

/// a key starting with this character is rendered verbatim (it brings its own quotes)
pub const RAW_KEY: char = '\u{1}';
/// in the byte transports (from_slice / from_reader) this character becomes the single byte 0xFF
pub const BAD_BYTE: char = '\u{f8ff}';

/// the key a document field denotes (raw keys: what their JSON text decodes to, if anything)
fn key_name(k: &str) -> String {
    match k.strip_prefix(RAW_KEY) {
        Some(raw) => serde_json::from_str::<String>(raw).unwrap_or_else(|_| k.to_string()),
        None => k.to_string(),
    }
}

fn render(v: &Val, ws: u8, out: &mut String) {
    let sp = match ws % 3 {
        0 => "",
        1 => " ",
        _ => "\n\t ",
    };
    match v {
        Val::U(u) => out.push_str(&u.to_string()),
        Val::I(i) => out.push_str(&i.to_string()),
        Val::Raw(s) => out.push_str(s),
        Val::S(s) => out.push_str(&serde_json::to_string(s).unwrap()),
        Val::Null => out.push_str("null"),
        Val::Bool(b) => out.push_str(if *b { "true" } else { "false" }),
        Val::Arr(a) => {
            out.push('[');
            for (i, x) in a.iter().enumerate() {
                if i > 0 {
                    out.push(',');
                }
                out.push_str(sp);
                render(x, ws, out);
            }
            out.push_str(sp);
            out.push(']');
        }
        Val::Obj(f) => {
            out.push('{');
            for (i, (k, x)) in f.iter().enumerate() {
                if i > 0 {
                    out.push(',');
                }
                out.push_str(sp);
                match k.strip_prefix(RAW_KEY) {
                    // verbatim key text (with its quotes): escapes that a serialiser would never produce
                    Some(raw) => out.push_str(raw),
                    None => out.push_str(&serde_json::to_string(k).unwrap()),
                }
                out.push_str(sp);
                out.push(':');
                out.push_str(sp);
                render(x, ws, out);
            }
            out.push_str(sp);
            out.push('}');
        }
    }
}

fn to_value(v: &Val) -> Option<Value> {
    let mut s = String::new();
    render(v, 0, &mut s);
    serde_json::from_str::<Value>(&s).ok()
}

/// Checks an accepted array against the document's fields.
fn check_accepted<T: Serialize + Debug>(t: &TooDee<T>, fields: &[(String, Value)], text: &str) -> Verdict {
    let (c, r) = (t.num_cols(), t.num_rows());
    ensure!(c.checked_mul(r) == Some(t.data().len()), "accepted/dims-vs-len", "accepted array has size ({},{}) but {} cells (document {})", c, r, t.data().len(), text);
    ensure!((c == 0) == (r == 0), "accepted/zero-rule", "accepted array has size ({},{}): exactly one zero dimension (document {})", c, r, text);
    ensure!(t.rows().len() == r && t.cells().len() == c * r, "accepted/iter-len", "accepted array's iterators disagree with its size (document {})", text);
    let has = |name: &str, want: &Value| fields.iter().any(|(k, v)| k == name && v == want);
    ensure!(has("num_cols", &Value::from(c as u64)), "accepted/num_cols-not-stated", "accepted array has num_cols {} but the document states {:?} (document {})", c, fields.iter().filter(|(k, _)| k == "num_cols").map(|(_, v)| v).collect::<Vec<_>>(), text);
    ensure!(has("num_rows", &Value::from(r as u64)), "accepted/num_rows-not-stated", "accepted array has num_rows {} but the document states {:?} (document {})", r, fields.iter().filter(|(k, _)| k == "num_rows").map(|(_, v)| v).collect::<Vec<_>>(), text);
    // a field that occurs more than once with DIFFERENT values states nothing definite: the array
    // cannot be "exactly what the document states" (equal repetitions are harmless)
    for name in ["num_cols", "num_rows", "data"] {
        let occ: Vec<&Value> = fields.iter().filter(|(k, _)| k == name).map(|(_, v)| v).collect();
        ensure!(occ.windows(2).all(|w| w[0] == w[1]), "accepted/conflicting-duplicates", "a document that states {} {} times with different values ({:?}) was accepted as a {}x{} array (document {})", name, occ.len(), occ.iter().map(|v| short(&v.to_string())).collect::<Vec<_>>(), c, r, short(text));
    }
    let cells = serde_json::to_value(t.data()).unwrap();
    ensure!(has("data", &cells), "accepted/cells-not-stated", "accepted array has cells {} but the document's data is {:?} (document {})", cells, fields.iter().filter(|(k, _)| k == "data").map(|(_, v)| v.to_string()).collect::<Vec<_>>(), text);
    Ok(())
}

fn check_doc<T: DeserializeOwned + Serialize + Debug>(text: &str, tr: Transport, fields: Option<&[(String, Value)]>, ctx: &mut Ctx) -> Verdict {
    match decode::<T>(text, tr) {
        Err(m) => fail!("deserialize-panicked", "deserialising via {:?} panicked: {} (document {})", tr, m, text),
        Ok(Err(e)) => {
            let class = if e.contains("missing field") {
                "rejected-missing-field"
            } else if e.contains("duplicate field") {
                "rejected-duplicate-field"
            } else if e.contains("unknown field") {
                "rejected-unknown-field"
            } else if e.contains("dimensions too big") {
                "rejected-overflow"
            } else if e.contains("invalid length") {
                "rejected-length"
            } else if e.contains("invalid type") || e.contains("invalid value") || e.contains("expected") {
                "rejected-type-or-value"
            } else {
                "rejected-other"
            };
            ctx.class(class);
            Ok(())
        }
        Ok(Ok(t)) => {
            ctx.class("accepted");
            match fields {
                Some(f) => check_accepted(&t, f, text),
                None => fail!("accepted/non-object", "a document that is not a JSON object was accepted as a {}x{} array (document {})", t.num_cols(), t.num_rows(), text),
            }
        }
    }
}

pub fn exec_doc(k: &Doc, ctx: &mut Ctx) -> Verdict {
    let mut text = String::new();
    match &k.fields {
        Some(f) => render(&Val::Obj(f.clone()), k.ws, &mut text),
        None => render(&k.top, k.ws, &mut text),
    }
    // reference fields: what the document states, per occurrence
    let fields: Option<Vec<(String, Value)>> = match (&k.fields, k.transport) {
        // a three-element array [num_cols, num_rows, data] states its fields positionally (the
        // struct's sequence form); any other non-object document states nothing
        (None, _) => match &k.top {
            Val::Arr(a) if a.len() == 3 => {
                let v: Vec<Option<Value>> = a.iter().map(to_value).collect();
                if v.iter().all(|x| x.is_some()) {
                    Some(vec![("num_cols".to_string(), v[0].clone().unwrap()), ("num_rows".to_string(), v[1].clone().unwrap()), ("data".to_string(), v[2].clone().unwrap())])
                } else {
                    None
                }
            }
            _ => None,
        },
        (Some(_), Transport::Value) => match serde_json::from_str::<Value>(&text) {
            Ok(Value::Object(m)) => Some(m.into_iter().collect()),
            _ => None,
        },
        (Some(f), _) => Some(f.iter().filter_map(|(k, v)| to_value(v).map(|x| (key_name(k), x))).collect()),
    };
    let fr = fields.as_deref();
    match k.elem {
        DocElem::U32 | DocElem::I64 | DocElem::Bytes | DocElem::Nested | DocElem::U128 | DocElem::I128 | DocElem::Map | DocElem::Mixed => check_doc::<u32>(&text, k.transport, fr, ctx)?,
        DocElem::Unit => check_doc::<()>(&text, k.transport, fr, ctx)?,
        DocElem::Str => check_doc::<String>(&text, k.transport, fr, ctx)?,
        DocElem::OptU32 => check_doc::<Option<u32>>(&text, k.transport, fr, ctx)?,
    }
    if let Some(f) = &k.fields {
        let names: Vec<&str> = f.iter().map(|(k, _)| k.as_str()).collect();
        if ["num_cols", "num_rows", "data"].iter().all(|n| names.contains(n)) {
            ctx.nt();
            ctx.class("has-all-three-fields");
        }
        let get = |n: &str| f.iter().find(|(k, _)| k == n).map(|(_, v)| v.clone());
        if let (Some(Val::U(c)), Some(Val::U(r))) = (get("num_cols"), get("num_rows")) {
            if (c == 0) != (r == 0) {
                ctx.class("doc-one-zero-dimension");
            }
            if c.checked_mul(r).is_none() {
                ctx.class("doc-overflowing-dimensions");
                if let Some(Val::Arr(a)) = get("data") {
                    if c.wrapping_mul(r) == a.len() as u64 {
                        ctx.class("doc-product-wraps-to-data-length");
                    }
                }
            }
        }
        if names.iter().filter(|n| **n == "data").count() > 1 {
            ctx.class("doc-duplicate-data");
        }
    } else {
        ctx.class("doc-not-an-object");
    }
    Ok(())
}

/// (a, b, k) with a * b == 2^64 + k exactly: dimension pairs whose product wraps to k
fn wrap_pair(r0: u16, r1: u16) -> (u64, u64, usize) {
    const SMALL: [u128; 40] = [2, 3, 4, 5, 6, 7, 8, 9, 11, 12, 13, 16, 17, 24, 31, 32, 33, 48, 63, 64, 65, 97, 127, 128, 129, 255, 256, 257, 641, 1000, 1023, 1024, 1025, 4099, 65535, 65536, 65537, 274177, 1048575, 4294967296];
    let mut k = (r0 % 48) as u128;
    let mut i = r1 as usize % SMALL.len();
    for _ in 0..(48 * SMALL.len()) {
        let n = (1u128 << 64) + k;
        let a = SMALL[i];
        if n % a == 0 && n / a < (1u128 << 64) {
            return (a as u64, (n / a) as u64, k as usize);
        }
        i += 1;
        if i == SMALL.len() {
            i = 0;
            k = (k + 1) % 48;
        }
    }
    (1 << 32, 1 << 32, 0)
}

fn elem_val(elem: DocElem) -> BoxedStrategy<Val> {
    match elem {
        DocElem::Unit => Just(Val::Null).boxed(),
        DocElem::Str => nasty_string().prop_map(Val::S).boxed(),
        DocElem::OptU32 => prop_oneof![3 => (0u64..1000).prop_map(Val::U), 1 => Just(Val::Null)].boxed(),
        _ => prop_oneof![5 => (0u64..1000).prop_map(Val::U), 1 => Just(Val::U(u32::MAX as u64))].boxed(),
    }
}
fn wrong_val() -> BoxedStrategy<Val> {
    prop_oneof![
        Just(Val::I(-1)),
        Just(Val::Raw("1.5".into())),
        Just(Val::Raw("1e2".into())),
        Just(Val::Raw("18446744073709551616".into())),
        Just(Val::U(u64::MAX)),
        Just(Val::U(1 << 32)),
        Just(Val::S("3".into())),
        Just(Val::Null),
        Just(Val::Bool(true)),
        Just(Val::Arr(vec![])),
        Just(Val::Arr(vec![Val::U(1)])),
        Just(Val::Obj(vec![])),
        Just(Val::Raw("-0".into())),
        Just(Val::Raw("2.0".into())),
    ]
    .boxed()
}
fn dim_pool() -> BoxedStrategy<Val> {
    prop_oneof![
        4 => (0u64..6).prop_map(Val::U),
        1 => Just(Val::U(1 << 32)),
        1 => Just(Val::U(1 << 63)),
        1 => Just(Val::U(u64::MAX)),
        1 => Just(Val::U((1 << 62) + 1)),
        3 => wrong_val(),
    ]
    .boxed()
}

/// keys that are not field names: near misses, long keys with a multi-byte character at every
/// offset around 32 bytes, escapes no serialiser produces (lone surrogates), a byte that is not UTF-8
fn unknown_key() -> BoxedStrategy<String> {
    prop_oneof![
        4 => proptest::sample::select(vec!["stride", "num_col", "Data", "", "num_rows ", "NUM_COLS", "num_cols\u{0}", "data\u{301}", "numcols", "num_cols2", "\u{feff}data"]).prop_map(|s| s.to_string()),
        4 => (0usize..70, proptest::sample::select(vec!['a', 'é', '€', '😀', '\u{7f}', '\u{80}']), 0usize..40, proptest::sample::select(vec!['z', 'ß', '\u{10ffff}'])).prop_map(|(a, ch, b, fill)| {
            let mut k = "k".repeat(a);
            k.push(ch);
            for _ in 0..b {
                k.push(fill);
            }
            k
        }),
        2 => nasty_string().prop_filter("a field name", |s| !["num_cols", "num_rows", "data"].contains(&s.as_str())),
        3 => proptest::sample::select(vec!["\"\\ud800\"", "\"\\udc00x\"", "\"ab\\ud83d\"", "\"\\ud800\\u0041\"", "\"\\ud83d\\ude00\"", "\"x\\u0000y\"", "\"\\udfff\\ud800\"", "\"kkkkkkkkkkkkkkkkkkkkkkkkkkkkkkk\\ud800\"", "\"extr\\u0061\""]).prop_map(|s| format!("{}{}", RAW_KEY, s)),
        1 => (0usize..40).prop_map(|a| format!("{}{}", "q".repeat(a), BAD_BYTE)),
    ]
    .boxed()
}

fn doc_strategy() -> BoxedStrategy<Doc> {
    let elem = prop_oneof![3 => Just(DocElem::U32), 2 => Just(DocElem::Str), 1 => Just(DocElem::OptU32), 1 => Just(DocElem::Unit)];
    (elem, 0u64..6, 0u64..6, transport(), 0u8..3)
        .prop_flat_map(|(elem, c, r, tr, ws)| {
            let (c, r) = if c == 0 || r == 0 { (0, 0) } else { (c, r) };
            let n = (c * r) as usize;
            // a consistent base document, then a list of mutations
            let data = prop::collection::vec(elem_val(elem), n..=n);
            let mutation = prop_oneof![
                30 => Just(0u8),           // none
                6 => Just(1u8),            // num_cols from the pool
                6 => Just(2u8),            // num_rows from the pool
                5 => Just(3u8),            // data length +-
                3 => Just(4u8),            // a data element of the wrong type
                3 => Just(5u8),            // data is not an array
                4 => Just(6u8),            // drop a field
                4 => Just(7u8),            // duplicate a field
                3 => Just(8u8),            // unknown key
                3 => Just(9u8),            // exactly one zero dimension with empty data
                4 => Just(10u8),           // dimensions whose product wraps to the data length
                2 => Just(11u8),           // top level is not an object
                3 => Just(12u8),           // both dimensions from the pool
                3 => Just(13u8),           // sequence form [num_cols, num_rows, data] of the current values
            ];
            (Just((elem, c, r, tr, ws)), data, prop::collection::vec(mutation, 1..3), dim_pool(), dim_pool(), wrong_val(), any::<[u16; 4]>(), elem_val(elem), unknown_key())
        })
        .prop_map(|((elem, c, r, tr, ws), data, muts, p1, p2, wrong, rnd, extra, ukey)| {
            let mut fields: Vec<(String, Val)> = vec![("num_cols".into(), Val::U(c)), ("num_rows".into(), Val::U(r)), ("data".into(), Val::Arr(data))];
            let mut top: Option<Val> = None;
            for m in muts {
                match m {
                    1 => fields.iter_mut().filter(|f| f.0 == "num_cols").for_each(|f| f.1 = p1.clone()),
                    2 => fields.iter_mut().filter(|f| f.0 == "num_rows").for_each(|f| f.1 = p2.clone()),
                    12 => {
                        fields.iter_mut().filter(|f| f.0 == "num_cols").for_each(|f| f.1 = p1.clone());
                        fields.iter_mut().filter(|f| f.0 == "num_rows").for_each(|f| f.1 = p2.clone());
                    }
                    3 => {
                        for f in fields.iter_mut().filter(|f| f.0 == "data") {
                            if let Val::Arr(a) = &mut f.1 {
                                match rnd[0] % 3 {
                                    0 => a.push(extra.clone()),
                                    1 => {
                                        a.pop();
                                    }
                                    _ => {
                                        for _ in 0..(rnd[1] % 7) {
                                            a.push(extra.clone());
                                        }
                                    }
                                }
                            }
                        }
                    }
                    4 => {
                        for f in fields.iter_mut().filter(|f| f.0 == "data") {
                            if let Val::Arr(a) = &mut f.1 {
                                if !a.is_empty() {
                                    let i = rnd[1] as usize % a.len();
                                    a[i] = wrong.clone();
                                }
                            }
                        }
                    }
                    5 => fields.iter_mut().filter(|f| f.0 == "data").for_each(|f| f.1 = wrong.clone()),
                    6 => {
                        if !fields.is_empty() {
                            fields.remove(rnd[2] as usize % fields.len());
                        }
                    }
                    7 => {
                        if !fields.is_empty() {
                            let f = fields[rnd[2] as usize % fields.len()].clone();
                            let at = rnd[3] as usize % (fields.len() + 1);
                            let f = if f.0 == "data" && rnd[0] % 2 == 0 {
                                // a second, different data array
                                (f.0, Val::Arr(vec![extra.clone(); (rnd[1] % 5) as usize]))
                            } else if rnd[0] % 3 == 1 {
                                // a second occurrence with another value (null, a wrong type, another number)
                                (f.0, if rnd[1] % 2 == 0 { Val::Null } else { wrong.clone() })
                            } else {
                                f
                            };
                            fields.insert(at, f);
                        }
                    }
                    8 => {
                        let at = rnd[3] as usize % (fields.len() + 1);
                        fields.insert(at, (ukey.clone(), if rnd[1] % 2 == 0 { wrong.clone() } else { extra.clone() }));
                    }
                    9 => {
                        let z = rnd[0] % 2 == 0;
                        fields = vec![("num_cols".into(), Val::U(if z { 0 } else { 1 + rnd[1] as u64 % 5 })), ("num_rows".into(), Val::U(if z { 1 + rnd[1] as u64 % 5 } else { 0 })), ("data".into(), Val::Arr(vec![]))];
                    }
                    10 => {
                        let (a, b, n): (u64, u64, usize) = [(1 << 63, 2, 0), (1 << 32, 1 << 32, 0), ((1 << 62) + 1, 4, 4), (1 << 63, 4, 0), ((1 << 63) + 1, 2, 2), (u64::MAX, u64::MAX, 1), (u64::MAX, 2, 0), (1 << 33, (1 << 31) + 1, 0)][rnd[0] as usize % 8];
                        // half of the time an exact factorisation of 2^64 + k (every split of the bit lengths)
                        let (a, b, n) = if rnd[2] % 2 == 0 { wrap_pair(rnd[0], rnd[3]) } else { (a, b, n) };
                        let (a, b) = if rnd[1] % 2 == 0 { (a, b) } else { (b, a) };
                        let n0 = n;
                        let n = match a.checked_mul(b) {
                            Some(p) => (p % 7) as usize,
                            None => {
                                let w = a.wrapping_mul(b);
                                let _ = n0;
                                if w < 64 { w as usize } else { (w % 5) as usize }
                            }
                        };
                        fields = vec![("num_cols".into(), Val::U(a)), ("num_rows".into(), Val::U(b)), ("data".into(), Val::Arr(vec![extra.clone(); n]))];
                    }
                    11 => top = Some(wrong.clone()),
                    13 => {
                        let get = |n: &str| fields.iter().find(|f| f.0 == n).map(|f| f.1.clone()).unwrap_or(Val::Null);
                        top = Some(Val::Arr(vec![get("num_cols"), get("num_rows"), get("data")]));
                    }
                    _ => {}
                }
            }
            // order
            if rnd[3] % 3 == 1 {
                fields.reverse();
            } else if rnd[3] % 3 == 2 && fields.len() > 1 {
                let k = rnd[2] as usize % fields.len();
                fields.rotate_left(k);
            }
            match top {
                Some(t) => Doc { elem, fields: None, top: t, ws, transport: tr },
                None => Doc { elem, fields: Some(fields), top: Val::Null, ws, transport: tr },
            }
        })
        .boxed()
}

pub struct C19;
impl Prop for C19 {
    type Case = Doc;
    const ID: &'static str = "C19";
    fn rule() -> &'static str {
        "documents generated from a grammar: a consistent base document (dims 0..6, data of the right length, element type u32 / String / Option<u32> / the zero-sized ()) with 1-2 mutations from {dimension from the pool 0, small, 2^32, 2^63, 2^64-1, 2^62+1, negative, fractional, exponent, > u64, string, null, bool, array, object; data length +-; wrong element type; data not an array; field dropped; field duplicated (also a second different data); unknown keys; exactly one zero dimension with empty data; dimension pairs whose product wraps to exactly the data length (fixed pairs and exact factorisations a*b = 2^64+k for k < 48 with every split of the bit lengths); non-object top level}, fields reordered, 3 whitespace styles, 4 transports; plus an exhaustive list of every subset / order of the three fields with fixed values. Oracle: never panics; Ok(t) => C01 shape invariant and there is an occurrence of each field in the document that t's dimensions / cells equal exactly (hence an accepted document cannot have overflowing, mismatching or one-zero dimensions); non-object documents are never accepted, except that a three-element array is read as the positional form [num_cols, num_rows, data] and held to the same standard. Non-trivial = an object containing all three fields. Distinct = distinct case. Also: unknown keys from a pool (near misses of the field names, a multi-byte character at every byte offset 24..40 of a long key, lone-surrogate escapes written verbatim, a byte that is not UTF-8 in the byte transports); a field stated twice with different values (null / another number / another array, before or after) must never be accepted."
    }
    fn bound(_t: Tier) -> String {
        "exhaustive part: all ordered selections (with duplication up to 4 fields) from {num_cols, num_rows, data, unknown} x 6 dimension / data variants x 4 transports".into()
    }
    fn enumerate(_tier: Tier, emit: &mut dyn FnMut(Doc)) {
        let names = ["num_cols", "num_rows", "data", "extra"];
        let variants: Vec<(Val, Val, Val)> = vec![
            (Val::U(2), Val::U(2), Val::Arr(vec![Val::U(1), Val::U(2), Val::U(3), Val::U(4)])),
            (Val::U(0), Val::U(0), Val::Arr(vec![])),
            (Val::U(0), Val::U(3), Val::Arr(vec![])),
            (Val::U(2), Val::U(0), Val::Arr(vec![])),
            (Val::U(2), Val::U(2), Val::Arr(vec![Val::U(1), Val::U(2), Val::U(3)])),
            (Val::U(1 << 63), Val::U(2), Val::Arr(vec![])),
            (Val::U(1 << 32), Val::U(1 << 32), Val::Arr(vec![])),
            (Val::U((1 << 62) + 1), Val::U(4), Val::Arr(vec![Val::U(1), Val::U(2), Val::U(3), Val::U(4)])),
            (Val::I(-1), Val::U(2), Val::Arr(vec![])),
            (Val::U(1), Val::U(1), Val::Arr(vec![Val::S("x".into())])),
        ];
        // unknown keys: a multi-byte character at every byte offset 24..=40, escapes no serialiser
        // produces, a byte that is not UTF-8; before and after the real fields
        {
            let mut keys: Vec<String> = Vec::new();
            for a in 24..=40usize {
                for ch in ['é', '€', '😀'] {
                    keys.push(format!("{}{}tail", "k".repeat(a), ch));
                }
            }
            for raw in ["\"\\ud800\"", "\"\\udc00\"", "\"ab\\ud83d\"", "\"\\ud83d\\ude00\"", "\"kkkkkkkkkkkkkkkkkkkkkkkkkkkkkkk\\ud800\"", "\"extr\\u0061\"", "\"\\ud800\\u0041\""] {
                keys.push(format!("{}{}", RAW_KEY, raw));
            }
            keys.push(format!("qq{}", BAD_BYTE));
            keys.push(format!("{}{}", "q".repeat(31), BAD_BYTE));
            for tr in [Transport::Str, Transport::Slice, Transport::Reader, Transport::Value] {
                for key in &keys {
                    let base: Vec<(String, Val)> = vec![("num_cols".into(), Val::U(2)), ("num_rows".into(), Val::U(1)), ("data".into(), Val::Arr(vec![Val::U(5), Val::U(6)]))];
                    for at in [0usize, 3] {
                        let mut f = base.clone();
                        f.insert(at, (key.clone(), Val::U(1)));
                        emit(Doc { elem: DocElem::U32, fields: Some(f), top: Val::Null, ws: 0, transport: tr });
                    }
                }
            }
        }
        // a field stated twice with different values (null / other number first or last)
        for tr in [Transport::Str, Transport::Slice, Transport::Reader, Transport::Value] {
            for name in ["num_cols", "num_rows", "data"] {
                for other in [Val::Null, Val::U(1), Val::Arr(vec![]), Val::Arr(vec![Val::U(5), Val::U(6)]), Val::S("2".into())] {
                    for first in [true, false] {
                        let mut f: Vec<(String, Val)> = vec![("num_cols".into(), Val::U(2)), ("num_rows".into(), Val::U(1)), ("data".into(), Val::Arr(vec![Val::U(5), Val::U(6)]))];
                        let at = f.iter().position(|x| x.0 == name).unwrap();
                        f.insert(if first { at } else { at + 1 }, (name.to_string(), other.clone()));
                        emit(Doc { elem: DocElem::U32, fields: Some(f.clone()), top: Val::Null, ws: 0, transport: tr });
                        emit(Doc { elem: DocElem::OptU32, fields: Some(f), top: Val::Null, ws: 1, transport: tr });
                    }
                }
            }
        }
        // zero-sized elements, and exact factorisations of 2^64 + k with k data cells
        for tr in [Transport::Str, Transport::Slice, Transport::Reader, Transport::Value] {
            for (c, r, n) in [(2u64, 2u64, 4usize), (0, 0, 0), (0, 3, 0), (1 << 63, 2, 0), (3, 1, 2)] {
                emit(Doc { elem: DocElem::Unit, fields: Some(vec![("num_cols".into(), Val::U(c)), ("num_rows".into(), Val::U(r)), ("data".into(), Val::Arr(vec![Val::Null; n]))]), top: Val::Null, ws: 0, transport: tr });
            }
            for r0 in 0..48u16 {
                for r1 in [0u16, 7, 20, 37] {
                    let (a, b, k) = wrap_pair(r0, r1);
                    emit(Doc { elem: DocElem::U32, fields: Some(vec![("num_cols".into(), Val::U(a)), ("num_rows".into(), Val::U(b)), ("data".into(), Val::Arr(vec![Val::U(1); k]))]), top: Val::Null, ws: 0, transport: tr });
                    emit(Doc { elem: DocElem::U32, fields: Some(vec![("data".into(), Val::Arr(vec![Val::U(1); k])), ("num_rows".into(), Val::U(a)), ("num_cols".into(), Val::U(b))]), top: Val::Null, ws: 1, transport: tr });
                }
            }
        }
        for tr in [Transport::Str, Transport::Slice, Transport::Reader, Transport::Value] {
            for (vc, vr, vd) in &variants {
                let val_of = |n: &str| match n {
                    "num_cols" => vc.clone(),
                    "num_rows" => vr.clone(),
                    "data" => vd.clone(),
                    _ => Val::U(7),
                };
                for len in 0..=4usize {
                    let total = 4usize.pow(len as u32);
                    for code in 0..total {
                        let mut x = code;
                        let mut f = Vec::new();
                        for _ in 0..len {
                            let n = names[x % 4];
                            f.push((n.to_string(), val_of(n)));
                            x /= 4;
                        }
                        emit(Doc { elem: DocElem::U32, fields: Some(f), top: Val::Null, ws: (code % 3) as u8, transport: tr });
                    }
                }
            }
            for (vc, vr, vd) in &variants {
                emit(Doc { elem: DocElem::U32, fields: None, top: Val::Arr(vec![vc.clone(), vr.clone(), vd.clone()]), ws: 1, transport: tr });
                emit(Doc { elem: DocElem::U32, fields: None, top: Val::Arr(vec![vr.clone(), vc.clone(), vd.clone()]), ws: 0, transport: tr });
            }
            for top in [Val::Null, Val::Arr(vec![]), Val::U(3), Val::S("data".into()), Val::Arr(vec![Val::U(2), Val::U(2), Val::Arr(vec![Val::U(1), Val::U(2), Val::U(3), Val::U(4)])]), Val::Bool(false), Val::Raw("1.5".into())] {
                emit(Doc { elem: DocElem::U32, fields: None, top, ws: 0, transport: tr });
            }
        }
    }
    fn strategy(_t: Tier) -> BoxedStrategy<Doc> {
        doc_strategy()
    }
    fn random_cases(tier: Tier) -> u64 {
        if tier == Tier::Quick { 400_000 } else { 6_000_000 }
    }
    fn execute(k: &Doc, ctx: &mut Ctx) -> Verdict {
        exec_doc(k, ctx)
    }
    fn essential_classes() -> &'static [&'static str] {
        &["accepted", "rejected-missing-field", "rejected-duplicate-field", "rejected-unknown-field", "rejected-overflow", "rejected-length", "rejected-type-or-value", "doc-one-zero-dimension", "doc-product-wraps-to-data-length", "doc-duplicate-data", "doc-not-an-object"]
    }
}
