//! C08 / C09 / C10: rows(), col(c), cells() (and their `_mut` and IntoIterator forms) behave
//! as the ideal double-ended exact-size sequence.  One engine: a receiver (owned array, view,
//! mutable view, nested views, view over a plain slice, third-party wrapper), an iterator kind
//! and a script of calls; an `Ideal` VecDeque of expected items (address + length) is stepped
//! in lock-step and every result is compared by address, length and value.

use super::grid::{layout, small_margin, Recv, RecvKind};
use crate::model::Ideal;
use crate::runner::*;
use crate::thin::Thin;
use crate::{ensure, fail};
use proptest::prelude::*;
use serde::{Deserialize, Serialize};
use toodee::*;

#[derive(Serialize, Deserialize, Clone, Copy, Debug, PartialEq, Eq, Hash)]
pub enum IterKind {
    Rows,
    RowsMut,
    Col,
    ColMut,
    Cells,
    CellsMut,
    /// `(&x).into_iter()` / `(&mut x).into_iter()`
    IntoIterRef,
    IntoIterMut,
}
impl IterKind {
    fn is_mut(&self) -> bool {
        matches!(self, IterKind::RowsMut | IterKind::ColMut | IterKind::CellsMut | IterKind::IntoIterMut)
    }
    fn is_col(&self) -> bool {
        matches!(self, IterKind::Col | IterKind::ColMut)
    }
    fn is_rows(&self) -> bool {
        matches!(self, IterKind::Rows | IterKind::RowsMut)
    }
}

/// Receivers: the mutable ones of the grid engine plus the shared-only views.
#[derive(Serialize, Deserialize, Clone, Copy, Debug, PartialEq, Eq, Hash)]
pub enum IRecv {
    /// Owned / ViewMut / Nested (view_mut of view_mut) / Thin / ThinView
    M(Recv),
    /// `parent.view(..)`
    View([u8; 4]),
    /// `parent.view(..).view(..)`
    NestedView([u8; 4], [u8; 4]),
    /// `parent.view_mut(..).view(..)`
    ViewOfViewMut([u8; 4], [u8; 4]),
    /// `TooDeeView::new(c, r, &slice)` / `TooDeeViewMut::new` over a slice `slack` longer than needed
    Slice(u8),
}

/// Symbolic jump distance, resolved against the ideal sequence's current state.
#[derive(Serialize, Deserialize, Clone, Copy, Debug, PartialEq, Eq, Hash)]
pub enum N {
    Zero,
    /// frac * L >> 16  (always < L when L > 0)
    Frac(u16),
    Lm1,
    L,
    Lp1,
    Max,
    HalfMaxP1,
    /// ceil(2^64 / stride) * j + d : the multiples that wrap the stride product back into range
    Wrap(u8, u8),
    /// cells: cells left in the partially consumed row at this end + d - 1  (d=0: last of that row, d=1: first of the next)
    Rem(u8),
    /// cells: rem + m * width + k
    RemRows(u8, u8),
    Lit(u8),
}

#[derive(Serialize, Deserialize, Clone, Copy, Debug, PartialEq, Eq, Hash)]
pub enum Step {
    Next,
    NextBack,
    Nth(N),
    NthBack(N),
    Len,
    SizeHint,
    /// `col[i]` on the remaining sequence (column kinds only)
    Index(N),
    /// `col_mut[i] = v`
    IndexWrite(N),
    /// TooDeeIterator::num_cols (rows / cells kinds)
    NumCols,
}

#[derive(Serialize, Deserialize, Clone, Copy, Debug, PartialEq, Eq, Hash)]
pub enum Terminal {
    Count,
    Last,
    Fold,
    RFold,
    CollectRev,
    ForEach,
}

#[derive(Serialize, Deserialize, Clone, Debug, PartialEq)]
pub struct IterCase {
    pub cols: u8,
    pub rows: u8,
    pub recv: IRecv,
    pub kind: IterKind,
    pub col: u64,
    pub script: Vec<Step>,
    pub end: Option<Terminal>,
    /// 0 = ordinary case; k > 0: the script runs on the k-th giant grid of `()` (crate::giant)
    #[serde(default)]
    pub giant: u8,
}

/// expected item: (address, length in elements, row index within the receiver)
type Item = (usize, usize, usize);

trait Yielded {
    fn span(&self) -> (usize, usize);
    fn first(&self) -> Option<u32>;
    fn poke(&mut self, v: u32);
}
impl Yielded for &[u32] {
    fn span(&self) -> (usize, usize) {
        (self.as_ptr() as usize, self.len())
    }
    fn first(&self) -> Option<u32> {
        <[u32]>::first(self).copied()
    }
    fn poke(&mut self, _v: u32) {}
}
impl Yielded for &mut [u32] {
    fn span(&self) -> (usize, usize) {
        (self.as_ptr() as usize, self.len())
    }
    fn first(&self) -> Option<u32> {
        <[u32]>::first(self).copied()
    }
    fn poke(&mut self, v: u32) {
        for (i, x) in self.iter_mut().enumerate() {
            *x = v + i as u32;
        }
    }
}
impl Yielded for &u32 {
    fn span(&self) -> (usize, usize) {
        (*self as *const u32 as usize, 1)
    }
    fn first(&self) -> Option<u32> {
        Some(**self)
    }
    fn poke(&mut self, _v: u32) {}
}
impl Yielded for &mut u32 {
    fn span(&self) -> (usize, usize) {
        (&**self as *const u32 as usize, 1)
    }
    fn first(&self) -> Option<u32> {
        Some(**self)
    }
    fn poke(&mut self, v: u32) {
        **self = v;
    }
}

struct Geo {
    base: usize,
    pc: usize,
    o: (usize, usize),
    c: usize,
    r: usize,
    /// element distance between two consecutive items' starts when they are a full line apart
    stride: usize,
}
impl Geo {
    fn addr(&self, x: usize, y: usize) -> usize {
        self.base + ((self.o.1 + y) * self.pc + self.o.0 + x) * 4
    }
}

fn ideal_items(g: &Geo, kind: IterKind, col: usize) -> Vec<Item> {
    let mut v = Vec::new();
    if g.c == 0 {
        return v;
    }
    match kind {
        IterKind::Rows | IterKind::RowsMut => {
            for y in 0..g.r {
                v.push((g.addr(0, y), g.c, y));
            }
        }
        IterKind::Col | IterKind::ColMut => {
            for y in 0..g.r {
                v.push((g.addr(col, y), 1, y));
            }
        }
        _ => {
            for y in 0..g.r {
                for x in 0..g.c {
                    v.push((g.addr(x, y), 1, y));
                }
            }
        }
    }
    v
}

struct Run<'x> {
    ideal: Ideal<Item>,
    g: Geo,
    kind: IterKind,
    width: usize,
    ctx: &'x mut Ctx,
    changing_front: u32,
    changing_back: u32,
    big_jump: bool,
    /// parent cell index -> value written through a yielded reference / IndexWrite
    writes: Vec<(usize, u32)>,
    next_val: u32,
}

impl<'x> Run<'x> {
    fn resolve(&self, n: N, back: bool) -> usize {
        let l = self.ideal.len();
        match n {
            N::Zero => 0,
            N::Frac(f) => {
                if l == 0 {
                    0
                } else {
                    (f as usize * l) >> 16
                }
            }
            N::Lm1 => l.saturating_sub(1),
            N::L => l,
            N::Lp1 => l + 1,
            N::Max => usize::MAX,
            N::HalfMaxP1 => usize::MAX / 2 + 1,
            N::Wrap(j, d) => {
                let s = self.g.stride.max(1) as u128;
                let q = ((1u128 << 64) + s - 1) / s;
                (q.wrapping_mul(j.max(1) as u128).wrapping_add(d as u128) & (u64::MAX as u128)) as usize
            }
            N::Rem(d) => (self.rem(back) + d as usize).saturating_sub(1),
            N::RemRows(m, k) => self.rem(back) + m as usize * self.width + k as usize,
            N::Lit(k) => k as usize,
        }
    }
    /// number of ideal items at this end that lie in the same row as the end item
    fn rem(&self, back: bool) -> usize {
        let l = self.ideal.len();
        if l == 0 {
            return 0;
        }
        if back {
            let row = self.ideal.items[l - 1].2;
            self.ideal.items.iter().rev().take_while(|i| i.2 == row).count()
        } else {
            let row = self.ideal.items[0].2;
            self.ideal.items.iter().take_while(|i| i.2 == row).count()
        }
    }
    /// classification of the cell iterator's state before an nth / nth_back call
    fn classify_state(&mut self, n: usize, back: bool) {
        if !matches!(self.kind, IterKind::Cells | IterKind::CellsMut | IterKind::IntoIterRef | IterKind::IntoIterMut) {
            return;
        }
        let l = self.ideal.len();
        let w = self.width.max(1);
        if l == 0 {
            self.ctx.class("nth-on-exhausted");
            return;
        }
        let fr = self.rem(false);
        let br = self.rem(true);
        let first_row = self.ideal.items[0].2;
        let last_row = self.ideal.items[l - 1].2;
        let front_partial = fr < w;
        let back_partial = br < w && last_row != first_row || (last_row == first_row && fr < w && false);
        let middle = if last_row > first_row { last_row - first_row - 1 + if !front_partial { 1 } else { 0 } + if !back_partial && last_row != first_row { 1 } else { 0 } } else { 0 };
        let name = format!("nth-state front-partial={} middle-rows={} back-partial={}", front_partial as u8, (middle > 0) as u8, back_partial as u8);
        self.ctx.class(&name);
        let rem = if back { br } else { fr };
        let jump = if n >= l {
            "jump-beyond-end"
        } else if n < rem {
            "jump-within-row"
        } else if (n - rem) % w == 0 {
            "jump-to-row-start"
        } else {
            "jump-row-crossing"
        };
        self.ctx.class(jump);
    }

    fn check_item<Y: Yielded>(&mut self, got: &Option<Y>, want: Option<Item>, what: &str, parent_vals: &[u32]) -> Verdict {
        match (got, want) {
            (None, None) => Ok(()),
            (Some(y), Some(w)) => {
                let (a, l) = y.span();
                ensure!((a, l) == (w.0, w.1), format!("{:?}/{}/wrong-item", self.kind, what), "{:?} {}: yielded item at address offset {} (len {}), the ideal sequence has offset {} (len {}) [offsets in elements from the parent's data()]", self.kind, what, (a as isize - self.g.base as isize) / 4, l, (w.0 as isize - self.g.base as isize) / 4, w.1);
                let idx = (w.0 - self.g.base) / 4;
                if l > 0 {
                    let cur = self.writes.iter().rev().find(|(j, _)| *j == idx).map(|(_, x)| *x).unwrap_or(parent_vals[idx]);
                    ensure!(y.first() == Some(cur), format!("{:?}/{}/wrong-value", self.kind, what), "{:?} {}: item value {:?} != parent cell value {}", self.kind, what, y.first(), cur);
                }
                Ok(())
            }
            (Some(y), None) => {
                let (a, l) = y.span();
                fail!(format!("{:?}/{}/some-for-none", self.kind, what), "{:?} {}: yielded an item (offset {}, len {}) but the ideal sequence is exhausted / the jump goes beyond its end", self.kind, what, (a as isize - self.g.base as isize) / 4, l)
            }
            (None, Some(w)) => fail!(format!("{:?}/{}/none-for-some", self.kind, what), "{:?} {}: returned None but the ideal sequence yields the item at offset {} (remaining {})", self.kind, what, (w.0 - self.g.base) / 4, self.ideal.len() + 1),
        }
    }
}

/// Drive one iterator through the script.  `index` is Some for column iterators.
fn drive<'a, Y: Yielded, I>(mut it: I, case: &IterCase, run: &mut Run<'_>, parent_vals: &[u32], index: Option<&dyn Fn(&mut I, usize, Option<u32>) -> Result<(usize, u32), String>>, num_cols: Option<&dyn Fn(&I) -> usize>) -> Verdict
where
    I: Iterator<Item = Y> + DoubleEndedIterator + ExactSizeIterator,
{
    let mut kept: Vec<Y> = Vec::new();
    let kind = run.kind;
    macro_rules! keep {
        ($g:expr) => {
            if let Some(y) = $g {
                kept.push(y);
            }
        };
    }
    for (si, step) in case.script.iter().enumerate() {
        let what = format!("step {} {:?}", si, step);
        match *step {
            Step::Next => {
                let w = run.ideal.next();
                let g = it.next();
                run.check_item(&g, w, &what, parent_vals)?;
                if w.is_some() {
                    run.changing_front += 1;
                }
                keep!(g);
            }
            Step::NextBack => {
                let w = run.ideal.next_back();
                let g = it.next_back();
                run.check_item(&g, w, &what, parent_vals)?;
                if w.is_some() {
                    run.changing_back += 1;
                }
                keep!(g);
            }
            Step::Nth(n) => {
                let nn = run.resolve(n, false);
                run.classify_state(nn, false);
                if nn >= 1 {
                    run.big_jump = true;
                }
                if nn > usize::MAX / run.g.stride.max(1) {
                    run.ctx.class("nth-overflow-provoking-n");
                }
                let w = run.ideal.nth(nn);
                let g = it.nth(nn);
                run.check_item(&g, w, &format!("{} (n={})", what, nn), parent_vals)?;
                run.changing_front += 1;
                keep!(g);
            }
            Step::NthBack(n) => {
                let nn = run.resolve(n, true);
                run.classify_state(nn, true);
                if nn >= 1 {
                    run.big_jump = true;
                }
                if nn > usize::MAX / run.g.stride.max(1) {
                    run.ctx.class("nth-overflow-provoking-n");
                }
                let w = run.ideal.nth_back(nn);
                let g = it.nth_back(nn);
                run.check_item(&g, w, &format!("{} (n={})", what, nn), parent_vals)?;
                run.changing_back += 1;
                keep!(g);
            }
            Step::Len => {
                let l = it.len();
                ensure!(l == run.ideal.len(), format!("{:?}/len", kind), "{:?} {}: len() {} but {} items remain", kind, what, l, run.ideal.len());
            }
            Step::SizeHint => {
                let h = it.size_hint();
                ensure!(h == (run.ideal.len(), Some(run.ideal.len())), format!("{:?}/size_hint", kind), "{:?} {}: size_hint() {:?} but {} items remain", kind, what, h, run.ideal.len());
            }
            Step::Index(n) | Step::IndexWrite(n) => {
                if let Some(ix) = index {
                    let i = run.resolve(n, false);
                    let write = matches!(step, Step::IndexWrite(_)) && kind == IterKind::ColMut;
                    let val = if write {
                        run.next_val += 1;
                        Some(run.next_val)
                    } else {
                        None
                    };
                    let res = ix(&mut it, i, val);
                    match (res, run.ideal.get(i).copied()) {
                        (Ok((a, v)), Some(w)) => {
                            ensure!(a == w.0, format!("{:?}/index/wrong-cell", kind), "{:?} {}: [{}] is the cell at offset {}, the ideal sequence has offset {}", kind, what, i, (a as isize - run.g.base as isize) / 4, (w.0 - run.g.base) / 4);
                            let idx = (w.0 - run.g.base) / 4;
                            if let Some(nv) = val {
                                run.writes.push((idx, nv));
                            } else {
                                let cur = run.writes.iter().rev().find(|(j, _)| *j == idx).map(|(_, x)| *x).unwrap_or(parent_vals[idx]);
                                ensure!(v == cur, format!("{:?}/index/wrong-value", kind), "{:?} {}: [{}] reads {} expected {}", kind, what, i, v, cur);
                            }
                            run.ctx.class("index-in-range");
                        }
                        (Err(_), None) => {
                            run.ctx.class("index-out-of-range-panics");
                        }
                        (Ok((a, _)), None) => fail!(format!("{:?}/index/out-of-range-accepted", kind), "{:?} {}: [{}] must panic ({} items remain) but returned the cell at offset {}", kind, what, i, run.ideal.len(), (a as isize - run.g.base as isize) / 4),
                        (Err(m), Some(_)) => fail!(format!("{:?}/index/in-range-panicked", kind), "{:?} {}: [{}] is in range ({} items remain) but panicked: {}", kind, what, i, run.ideal.len(), m),
                    }
                }
            }
            Step::NumCols => {
                if let Some(nc) = num_cols {
                    // exercised, not judged: TooDeeIterator::num_cols is not part of C08-C10's statements
                    let _ = nc(&it);
                }
            }
        }
    }
    // terminal
    let rest: Vec<Item> = run.ideal.items.iter().copied().collect();
    match case.end {
        None => {
            let l = it.len();
            ensure!(l == rest.len(), format!("{:?}/final-len", kind), "{:?}: len() {} at the end of the script but {} items remain", kind, l, rest.len());
        }
        Some(Terminal::Count) => {
            let n = it.count();
            ensure!(n == rest.len(), format!("{:?}/count", kind), "{:?}: count() {} but {} items remain", kind, n, rest.len());
        }
        Some(Terminal::Last) => {
            let g = it.last();
            run.check_item(&g, rest.last().copied(), "last()", parent_vals)?;
            keep!(g);
        }
        Some(Terminal::Fold) => {
            let got: Vec<(usize, usize)> = it.fold(Vec::new(), |mut acc, y| {
                acc.push(y.span());
                kept.push(y);
                acc
            });
            let want: Vec<(usize, usize)> = rest.iter().map(|w| (w.0, w.1)).collect();
            ensure!(got == want, format!("{:?}/fold", kind), "{:?}: fold visited {} items {:?}..., the ideal sequence has {} {:?}...", kind, got.len(), got.iter().take(4).map(|g| (g.0 as isize - run.g.base as isize) / 4).collect::<Vec<_>>(), want.len(), want.iter().take(4).map(|g| (g.0 - run.g.base) / 4).collect::<Vec<_>>());
        }
        Some(Terminal::RFold) => {
            let got: Vec<(usize, usize)> = it.rfold(Vec::new(), |mut acc, y| {
                acc.push(y.span());
                kept.push(y);
                acc
            });
            let want: Vec<(usize, usize)> = rest.iter().rev().map(|w| (w.0, w.1)).collect();
            ensure!(got == want, format!("{:?}/rfold", kind), "{:?}: rfold visited {} items, the ideal sequence (reversed) has {}; first offsets {:?} vs {:?}", kind, got.len(), want.len(), got.iter().take(4).map(|g| (g.0 as isize - run.g.base as isize) / 4).collect::<Vec<_>>(), want.iter().take(4).map(|g| (g.0 - run.g.base) / 4).collect::<Vec<_>>());
        }
        Some(Terminal::CollectRev) => {
            let all: Vec<Y> = it.rev().collect();
            let got: Vec<(usize, usize)> = all.iter().map(|y| y.span()).collect();
            kept.extend(all);
            let want: Vec<(usize, usize)> = rest.iter().rev().map(|w| (w.0, w.1)).collect();
            ensure!(got == want, format!("{:?}/rev-collect", kind), "{:?}: rev().collect() gave {} items, the ideal sequence (reversed) has {}", kind, got.len(), want.len());
        }
        Some(Terminal::ForEach) => {
            let mut got = Vec::new();
            for y in it {
                got.push(y.span());
                kept.push(y);
            }
            let want: Vec<(usize, usize)> = rest.iter().map(|w| (w.0, w.1)).collect();
            ensure!(got == want, format!("{:?}/for-loop", kind), "{:?}: a for loop visited {} items, the ideal sequence has {}", kind, got.len(), want.len());
        }
    }
    // all yielded references are still alive here: pairwise disjoint, then written through
    if kind.is_mut() {
        let mut spans: Vec<(usize, usize)> = kept.iter().map(|y| y.span()).filter(|s| s.1 > 0).collect();
        spans.sort();
        for p in spans.windows(2) {
            ensure!(p[0].0 + p[0].1 * 4 <= p[1].0, format!("{:?}/aliasing", kind), "{:?}: two yielded mutable items overlap (offsets {} len {} and {} len {})", kind, (p[0].0 - run.g.base) / 4, p[0].1, (p[1].0 - run.g.base) / 4, p[1].1);
        }
        for y in kept.iter_mut() {
            let (a, l) = y.span();
            let v = 1_000_000 + run.next_val * 64;
            run.next_val += 1;
            y.poke(v);
            let idx = (a - run.g.base) / 4;
            for i in 0..l {
                run.writes.push((idx + i, v + i as u32));
            }
        }
    }
    Ok(())
}

fn index_col<'a>(it: &mut Col<'a, u32>, i: usize, _w: Option<u32>) -> Result<(usize, u32), String> {
    catch(|| {
        let r = &it[i];
        (r as *const u32 as usize, *r)
    })
}
fn index_col_mut<'a>(it: &mut ColMut<'a, u32>, i: usize, w: Option<u32>) -> Result<(usize, u32), String> {
    catch(|| match w {
        Some(v) => {
            it[i] = v;
            let r = &it[i];
            (r as *const u32 as usize, *r)
        }
        None => {
            let r = &it[i];
            (r as *const u32 as usize, *r)
        }
    })
}

/// run the script on a shared receiver
fn on_shared<X: TooDeeOps<u32>>(x: &X, case: &IterCase, run: &mut Run<'_>, pv: &[u32], col: usize) -> Result<Verdict, String> {
    match case.kind {
        IterKind::Rows => Ok(drive(x.rows(), case, run, pv, None, Some(&|i: &Rows<'_, u32>| i.num_cols()))),
        IterKind::Col => {
            let it = catch(|| x.col(col))?;
            Ok(drive(it, case, run, pv, Some(&index_col), None))
        }
        // (receivers without an IntoIterator impl of their own fall back to cells())
        _ => Ok(drive(x.cells(), case, run, pv, None, Some(&|i: &Cells<'_, u32>| i.num_cols()))),
    }
}
fn on_mut<X: TooDeeOpsMut<u32>>(x: &mut X, case: &IterCase, run: &mut Run<'_>, pv: &[u32], col: usize) -> Result<Verdict, String> {
    match case.kind {
        IterKind::RowsMut => Ok(drive(x.rows_mut(), case, run, pv, None, Some(&|i: &RowsMut<'_, u32>| i.num_cols()))),
        IterKind::ColMut => {
            let it = catch(|| x.col_mut(col))?;
            Ok(drive(it, case, run, pv, Some(&index_col_mut), None))
        }
        IterKind::CellsMut | IterKind::IntoIterMut => Ok(drive(x.cells_mut(), case, run, pv, None, Some(&|i: &CellsMut<'_, u32>| i.num_cols()))),
        _ => on_shared(&*x, case, run, pv, col),
    }
}

pub fn execute(case: &IterCase, ctx: &mut Ctx) -> Verdict {
    let (cols, rows) = (case.cols as usize, case.rows as usize);
    // geometry
    let (pc, pr, o, c, r, s1, e1, s2, e2, mkind, slack);
    match case.recv {
        IRecv::M(rv) => {
            let l = layout(cols, rows, &rv);
            pc = l.pc; pr = l.pr; o = l.o; c = l.c; r = l.r; s1 = l.s1; e1 = l.e1; s2 = l.s2; e2 = l.e2; mkind = Some(rv.kind); slack = 0;
        }
        IRecv::View(m) => {
            let l = layout(cols, rows, &Recv::view(m));
            pc = l.pc; pr = l.pr; o = l.o; c = l.c; r = l.r; s1 = l.s1; e1 = l.e1; s2 = l.s2; e2 = l.e2; mkind = None; slack = 0;
        }
        IRecv::NestedView(m, m2) | IRecv::ViewOfViewMut(m, m2) => {
            let l = layout(cols, rows, &Recv::nested(m, m2));
            pc = l.pc; pr = l.pr; o = l.o; c = l.c; r = l.r; s1 = l.s1; e1 = l.e1; s2 = l.s2; e2 = l.e2; mkind = None; slack = 0;
        }
        IRecv::Slice(sl) => {
            let (ec, er) = if cols == 0 || rows == 0 { (0, 0) } else { (cols, rows) };
            pc = ec; pr = er; o = (0, 0); c = ec; r = er; s1 = (0, 0); e1 = (ec, er); s2 = (0, 0); e2 = (0, 0); mkind = None; slack = sl as usize;
        }
    }
    let n = pc * pr;
    let vals: Vec<u32> = (0..(n + slack) as u32).map(|i| i * 7 + 3).collect();
    let col = case.col as usize;
    // column out of range: creation must panic
    let col_bad = case.kind.is_col() && col >= c;
    let mut buf = vals.clone();
    let mut parent: TooDee<u32> = if matches!(case.recv, IRecv::Slice(_)) { TooDee::default() } else { TooDee::from_vec(pc, pr, vals[..n].to_vec()) };
    let base = if matches!(case.recv, IRecv::Slice(_)) { buf.as_ptr() as usize } else { parent.data().as_ptr() as usize };
    let stride_elems = match case.kind {
        IterKind::Rows | IterKind::RowsMut => pc.max(1),
        IterKind::Col | IterKind::ColMut => pc.max(1),
        _ => pc.max(1),
    };
    let g = Geo { base, pc, o, c, r, stride: stride_elems };
    let items = if col_bad { vec![] } else { ideal_items(&g, case.kind, col) };
    let total = items.len();
    let mut run = Run { ideal: Ideal::new(items), g, kind: case.kind, width: c, ctx, changing_front: 0, changing_back: 0, big_jump: false, writes: Vec::new(), next_val: 0 };
    let pv = &vals;
    let res: Result<Verdict, String> = match case.recv {
        IRecv::M(rv) => {
            let is_ii = matches!(case.kind, IterKind::IntoIterRef | IterKind::IntoIterMut);
            match (rv.kind, is_ii) {
                (RecvKind::Owned, true) => {
                    if case.kind == IterKind::IntoIterRef {
                        Ok(drive((&parent).into_iter(), case, &mut run, pv, None, None))
                    } else {
                        Ok(drive((&mut parent).into_iter(), case, &mut run, pv, None, None))
                    }
                }
                (RecvKind::ViewMut, true) | (RecvKind::ThinView, true) => {
                    let mut v = parent.view_mut(s1, e1);
                    if case.kind == IterKind::IntoIterRef {
                        let r = Ok(drive((&v).into_iter(), case, &mut run, pv, None, None));
                        r
                    } else {
                        let r = Ok(drive((&mut v).into_iter(), case, &mut run, pv, None, None));
                        r
                    }
                }
                (RecvKind::Nested, true) => {
                    let mut v1 = parent.view_mut(s1, e1);
                    let mut v2 = v1.view_mut(s2, e2);
                    if case.kind == IterKind::IntoIterRef {
                        let r = Ok(drive((&v2).into_iter(), case, &mut run, pv, None, None));
                        r
                    } else {
                        let r = Ok(drive((&mut v2).into_iter(), case, &mut run, pv, None, None));
                        r
                    }
                }
                (RecvKind::Thin, true) => {
                    // the wrapper has no IntoIterator impl: use cells()/cells_mut() defaults
                    let mut th = Thin::new(&mut parent);
                    if case.kind == IterKind::IntoIterRef {
                        Ok(drive(th.cells(), case, &mut run, pv, None, Some(&|i: &Cells<'_, u32>| i.num_cols())))
                    } else {
                        Ok(drive(th.cells_mut(), case, &mut run, pv, None, Some(&|i: &CellsMut<'_, u32>| i.num_cols())))
                    }
                }
                (RecvKind::Owned, false) => on_mut(&mut parent, case, &mut run, pv, col),
                (RecvKind::Thin, false) => on_mut(&mut Thin::new(&mut parent), case, &mut run, pv, col),
                (RecvKind::ViewMut, false) => on_mut(&mut parent.view_mut(s1, e1), case, &mut run, pv, col),
                (RecvKind::ThinView, false) => {
                    let mut v = parent.view_mut(s1, e1);
                    let mut th = Thin::new(&mut v);
                    on_mut(&mut th, case, &mut run, pv, col)
                }
                (RecvKind::Nested, false) => {
                    let mut v1 = parent.view_mut(s1, e1);
                    let mut v2 = v1.view_mut(s2, e2);
                    on_mut(&mut v2, case, &mut run, pv, col)
                }
                (RecvKind::SliceMut, _) => {
                    let mut v = TooDeeViewMut::new(c, r, parent.data_mut());
                    on_mut(&mut v, case, &mut run, pv, col)
                }
            }
        }
        IRecv::View(_) => {
            let v = parent.view(s1, e1);
            if case.kind == IterKind::IntoIterRef {
                Ok(drive((&v).into_iter(), case, &mut run, pv, None, None))
            } else {
                on_shared(&v, case, &mut run, pv, col)
            }
        }
        IRecv::NestedView(..) => {
            let v1 = parent.view(s1, e1);
            let v2 = v1.view(s2, e2);
            if case.kind == IterKind::IntoIterRef {
                Ok(drive((&v2).into_iter(), case, &mut run, pv, None, None))
            } else {
                on_shared(&v2, case, &mut run, pv, col)
            }
        }
        IRecv::ViewOfViewMut(..) => {
            let v1 = parent.view_mut(s1, e1);
            let v2 = v1.view(s2, e2);
            on_shared(&v2, case, &mut run, pv, col)
        }
        IRecv::Slice(_) => {
            if case.kind.is_mut() {
                let mut v = TooDeeViewMut::new(c, r, &mut buf[..]);
                if case.kind == IterKind::IntoIterMut {
                    let r = Ok(drive((&mut v).into_iter(), case, &mut run, pv, None, None));
                    r
                } else {
                    on_mut(&mut v, case, &mut run, pv, col)
                }
            } else {
                let v = TooDeeView::new(c, r, &buf[..]);
                if case.kind == IterKind::IntoIterRef {
                    Ok(drive((&v).into_iter(), case, &mut run, pv, None, None))
                } else {
                    on_shared(&v, case, &mut run, pv, col)
                }
            }
        }
    };
    let kind = case.kind;
    match res {
        Err(msg) => {
            // creating the column iterator panicked
            ensure!(col_bad, format!("{:?}/creation-panicked", kind), "{:?}: col({}) on a receiver with {} columns panicked: {}", kind, col, c, msg);
            run.ctx.class("col-out-of-range-panics");
            run.ctx.nt();
            return Ok(());
        }
        Ok(v) => {
            ensure!(!col_bad, format!("{:?}/col-out-of-range-accepted", kind), "{:?}: col({}) on a receiver with {} columns must panic but returned an iterator", kind, col, c);
            v?;
        }
    }
    // write-through: the parent equals the original with exactly the recorded writes applied
    let after: &[u32] = if matches!(case.recv, IRecv::Slice(_)) { &buf } else { parent.data() };
    let mut want = vals.clone();
    want.truncate(after.len());
    for (idx, v) in &run.writes {
        want[*idx] = *v;
    }
    if after != &want[..] {
        let i = (0..after.len()).find(|&i| after[i] != want[i]).unwrap();
        fail!(format!("{:?}/write-through", kind), "{:?}: after writing through the yielded items parent cell {} (col {}, row {}) is {} but should be {}", kind, i, i % pc.max(1), i / pc.max(1), after[i], want[i]);
    }
    // classification
    if (run.changing_front > 0 && run.changing_back > 0 && run.changing_front + run.changing_back >= 2) || run.big_jump {
        run.ctx.nt();
    }
    let stride_gt_width = pc > c && c > 0;
    if stride_gt_width {
        run.ctx.class("stride>width");
    }
    if c == 1 {
        run.ctx.class("width-1");
    }
    if r == 1 {
        run.ctx.class("height-1");
    }
    if c == 0 {
        run.ctx.class("empty");
    }
    if pc == 1 && c == 1 {
        run.ctx.class("single-column-parent(stride 1)");
    }
    if pc >= 8 {
        run.ctx.class("stride>=8");
    }
    run.ctx.class(&format!("{:?}", kind));
    let _ = total;
    Ok(())
}


// ---------------------------------------------------------------------------------------------
// zero-sized element types: only Some/None, item lengths and the length reports are observable,
// and they must be exactly those of the ideal sequence (pointer-based iteration breaks here first)

fn zst_drive<Y, I>(it: I, case: &IterCase, total: usize, item_len: Option<usize>, len_of: &dyn Fn(&Y) -> usize, kind: IterKind) -> Verdict
where
    I: Iterator<Item = Y> + DoubleEndedIterator + ExactSizeIterator,
{
    zst_drive_ext(it, case, total, item_len, len_of, kind, None, None)
}

/// `stride`: Some(s) on a giant grid -- wrap-provoking jumps are computed from it and per-item
/// terminals only run when few items remain.  `index`: `col[i]` / `col_mut[i] = v`.
#[allow(clippy::too_many_arguments)]
fn zst_drive_ext<Y, I>(mut it: I, case: &IterCase, total: usize, item_len: Option<usize>, len_of: &dyn Fn(&Y) -> usize, kind: IterKind, stride: Option<usize>, index: Option<&dyn Fn(&mut I, usize, bool) -> Result<(), String>>) -> Verdict
where
    I: Iterator<Item = Y> + DoubleEndedIterator + ExactSizeIterator,
{
    let mut left = total;
    let check = |g: &Option<Y>, want: bool, what: &str| -> Verdict {
        ensure!(g.is_some() == want, format!("{:?}/zst/{}", kind, what), "{:?} over a zero-sized element type, {}: returned {} but the ideal sequence gives {}", kind, what, if g.is_some() { "Some" } else { "None" }, if want { "Some" } else { "None" });
        if let (Some(y), Some(l)) = (g.as_ref(), item_len) {
            ensure!(len_of(y) == l, format!("{:?}/zst/item-len", kind), "{:?} over a zero-sized element type, {}: row of length {} instead of {}", kind, what, len_of(y), l);
        }
        Ok(())
    };
    for (si, step) in case.script.iter().enumerate() {
        let what = format!("step {} {:?}", si, step);
        let resolve = |n: N| -> usize {
            match n {
                N::Zero => 0,
                N::Frac(f) => if left == 0 { 0 } else { ((f as u128 * left as u128) >> 16) as usize },
                N::Lm1 => left.saturating_sub(1),
                N::L => left,
                N::Lp1 => left.saturating_add(1),
                N::Max => usize::MAX,
                N::HalfMaxP1 => usize::MAX / 2 + 1,
                N::Wrap(j, d) => match stride {
                    None => (u64::MAX / (j.max(1) as u64 + 1)) as usize + d as usize,
                    Some(s) => {
                        let q = ((1u128 << 64) + s as u128 - 1) / s.max(1) as u128;
                        ((q * j.max(1) as u128 + d as u128) & u64::MAX as u128) as usize
                    }
                },
                N::Rem(d) => d as usize,
                N::RemRows(m, k) => m as usize * 3 + k as usize,
                N::Lit(k) => k as usize,
            }
        };
        match *step {
            Step::Next => {
                let g = it.next();
                check(&g, left > 0, &what)?;
                left = left.saturating_sub(1);
            }
            Step::NextBack => {
                let g = it.next_back();
                check(&g, left > 0, &what)?;
                left = left.saturating_sub(1);
            }
            Step::Nth(n) | Step::NthBack(n) => {
                let nn = resolve(n);
                let g = if matches!(step, Step::Nth(_)) { it.nth(nn) } else { it.nth_back(nn) };
                check(&g, nn < left, &format!("{} (n={})", what, nn))?;
                left = if nn < left { left - nn - 1 } else { 0 };
            }
            Step::Len | Step::SizeHint => {
                let (l, h) = (catch(|| it.len()), catch(|| it.size_hint()));
                ensure!(l == Ok(left) && h == Ok((left, Some(left))), format!("{:?}/zst/len", kind), "{:?} over a zero-sized element type, {}: len() {:?} / size_hint() {:?} but {} items remain", kind, what, l, h, left);
            }
            Step::Index(n) | Step::IndexWrite(n) => {
                if let Some(ix) = index {
                    let i = resolve(n);
                    let res = ix(&mut it, i, matches!(step, Step::IndexWrite(_)));
                    ensure!(res.is_ok() == (i < left), format!("{:?}/zst/index", kind), "{:?} over a zero-sized element type, {}: col[{}] with {} items remaining {} but should {}{}", kind, what, i, left, if res.is_ok() { "returned" } else { "panicked" }, if i < left { "return" } else { "panic" }, res.as_ref().err().map(|m| format!(" [{}]", m)).unwrap_or_default());
                }
            }
            _ => {}
        }
    }
    if stride.is_some() && left > 4096 {
        // only the O(1) terminals
        let cells = !kind.is_col() && !kind.is_rows();
        match case.end {
            Some(Terminal::Last) | Some(Terminal::RFold) | Some(Terminal::CollectRev) => {
                let g = catch(|| it.last());
                match g {
                    Ok(g) => check(&g, left > 0, "last()")?,
                    Err(m) => fail!(format!("{:?}/zst/last-panicked", kind), "{:?} over a zero-sized element type: last() with {} items remaining panicked: {}", kind, left, m),
                }
            }
            _ if cells => {
                let l = catch(|| it.len());
                ensure!(l == Ok(left), format!("{:?}/zst/len", kind), "{:?} over a zero-sized element type: final len() {:?} but {} items remain", kind, l, left);
            }
            _ => {
                let n = catch(|| it.count());
                ensure!(n == Ok(left), format!("{:?}/zst/count", kind), "{:?} over a zero-sized element type: count() {:?} but {} items remain", kind, n, left);
            }
        }
        return Ok(());
    }
    match case.end {
        Some(Terminal::Count) | None => {
            let n = it.count();
            ensure!(n == left, format!("{:?}/zst/count", kind), "{:?} over a zero-sized element type: count() {} but {} items remain", kind, n, left);
        }
        Some(Terminal::Last) => {
            let g = it.last();
            check(&g, left > 0, "last()")?;
        }
        Some(Terminal::Fold) | Some(Terminal::ForEach) => {
            let n = it.fold(0usize, |a, _| a + 1);
            ensure!(n == left, format!("{:?}/zst/fold", kind), "{:?} over a zero-sized element type: fold visited {} items but {} remain", kind, n, left);
        }
        Some(Terminal::RFold) | Some(Terminal::CollectRev) => {
            let n = it.rfold(0usize, |a, _| a + 1);
            ensure!(n == left, format!("{:?}/zst/rfold", kind), "{:?} over a zero-sized element type: rfold visited {} items but {} remain", kind, n, left);
        }
    }
    Ok(())
}

fn zst_on<X: TooDeeOpsMut<()>>(x: &mut X, case: &IterCase) -> Verdict {
    let (c, r) = (x.num_cols(), x.num_rows());
    let col = case.col as usize;
    let k = case.kind;
    match k {
        IterKind::Rows => zst_drive(x.rows(), case, r, Some(c), &|y: &&[()]| y.len(), k),
        IterKind::RowsMut => zst_drive(x.rows_mut(), case, r, Some(c), &|y: &&mut [()]| y.len(), k),
        IterKind::Col | IterKind::ColMut => {
            if col >= c {
                let res = catch(|| if k == IterKind::Col { x.col(col).len() } else { x.col_mut(col).len() });
                ensure!(res.is_err(), format!("{:?}/zst/col-out-of-range-accepted", k), "{:?}: col({}) on a {}x{} array of a zero-sized type must panic", k, col, c, r);
                return Ok(());
            }
            if k == IterKind::Col {
                zst_drive(x.col(col), case, r, None, &|_y: &&()| 1, k)
            } else {
                zst_drive(x.col_mut(col), case, r, None, &|_y: &&mut ()| 1, k)
            }
        }
        IterKind::Cells | IterKind::IntoIterRef => zst_drive(x.cells(), case, c * r, None, &|_y: &&()| 1, k),
        IterKind::CellsMut | IterKind::IntoIterMut => zst_drive(x.cells_mut(), case, c * r, None, &|_y: &&mut ()| 1, k),
    }
}

/// the same script on an array / window of a zero-sized element type
pub fn zst_companion(case: &IterCase) -> Verdict {
    let (cols, rows) = (case.cols as usize, case.rows as usize);
    let rv = match case.recv {
        IRecv::M(rv) => rv,
        IRecv::View(m) => Recv::view(m),
        IRecv::NestedView(m, m2) | IRecv::ViewOfViewMut(m, m2) => Recv::nested(m, m2),
        IRecv::Slice(_) => Recv::owned(),
    };
    let l = layout(cols, rows, &rv);
    let mut parent: TooDee<()> = if l.pc == 0 { TooDee::default() } else { TooDee::init(l.pc, l.pr, ()) };
    match rv.kind {
        RecvKind::Owned | RecvKind::Thin => zst_on(&mut parent, case),
        RecvKind::SliceMut => zst_on(&mut TooDeeViewMut::new(l.c, l.r, parent.data_mut()), case),
        RecvKind::ViewMut | RecvKind::ThinView => zst_on(&mut parent.view_mut(l.s1, l.e1), case),
        RecvKind::Nested => {
            let mut v1 = parent.view_mut(l.s1, l.e1);
            let mut v2 = v1.view_mut(l.s2, l.e2);
            zst_on(&mut v2, case)
        }
    }
}

/// The script on the k-th giant grid of `()`: only Some/None, row lengths and the length
/// reports are observable; with cell counts next to usize::MAX every unchecked product or sum in
/// the iterator arithmetic shows.
fn giant_on<X: TooDeeOpsMut<()>>(x: &mut X, case: &IterCase, stride: usize) -> Verdict {
    let (c, r) = (x.num_cols(), x.num_rows());
    let col = case.col as usize;
    let k = case.kind;
    let st = Some(stride);
    match k {
        IterKind::Rows => zst_drive_ext(x.rows(), case, r, Some(c), &|y: &&[()]| y.len(), k, st, None),
        IterKind::RowsMut => zst_drive_ext(x.rows_mut(), case, r, Some(c), &|y: &&mut [()]| y.len(), k, st, None),
        IterKind::Col | IterKind::ColMut => {
            let made = catch(|| if k == IterKind::Col { x.col(col).len() } else { x.col_mut(col).len() });
            ensure!(made.is_ok() == (col < c), format!("{:?}/zst/col-creation", k), "{:?}: col({}) on a {}x{} grid of a zero-sized type {} but should {}: {:?}", k, col, c, r, if made.is_ok() { "returned" } else { "panicked" }, if col < c { "return" } else { "panic" }, made);
            if col >= c {
                return Ok(());
            }
            if k == IterKind::Col {
                zst_drive_ext(x.col(col), case, r, None, &|_y: &&()| 1, k, st, Some(&|it: &mut Col<'_, ()>, i: usize, _w: bool| catch(|| { let _ = &it[i]; })))
            } else {
                zst_drive_ext(x.col_mut(col), case, r, None, &|_y: &&mut ()| 1, k, st, Some(&|it: &mut ColMut<'_, ()>, i: usize, w: bool| catch(|| if w { it[i] = (); } else { let _ = &it[i]; })))
            }
        }
        IterKind::Cells => zst_drive_ext(x.cells(), case, c * r, None, &|_y: &&()| 1, k, st, None),
        IterKind::CellsMut => zst_drive_ext(x.cells_mut(), case, c * r, None, &|_y: &&mut ()| 1, k, st, None),
        IterKind::IntoIterRef | IterKind::IntoIterMut => zst_drive_ext(x.cells(), case, c * r, None, &|_y: &&()| 1, k, st, None),
    }
}

fn giant_shared<'a>(v: &TooDeeView<'a, ()>, case: &IterCase, stride: usize) -> Verdict {
    let (c, r) = v.size();
    let col = case.col as usize;
    let k = case.kind;
    let st = Some(stride);
    match k {
        IterKind::Rows | IterKind::RowsMut => zst_drive_ext(v.rows(), case, r, Some(c), &|y: &&[()]| y.len(), k, st, None),
        IterKind::Col | IterKind::ColMut => {
            let made = catch(|| v.col(col).len());
            ensure!(made.is_ok() == (col < c), format!("{:?}/zst/col-creation", k), "{:?}: col({}) on a {}x{} view of a zero-sized type {} but should {}: {:?}", k, col, c, r, if made.is_ok() { "returned" } else { "panicked" }, if col < c { "return" } else { "panic" }, made);
            if col >= c {
                return Ok(());
            }
            zst_drive_ext(v.col(col), case, r, None, &|_y: &&()| 1, k, st, Some(&|it: &mut Col<'_, ()>, i: usize, _w: bool| catch(|| { let _ = &it[i]; })))
        }
        IterKind::IntoIterRef | IterKind::IntoIterMut => zst_drive_ext(v.into_iter(), case, c * r, None, &|_y: &&()| 1, k, st, None),
        _ => zst_drive_ext(v.cells(), case, c * r, None, &|_y: &&()| 1, k, st, None),
    }
}

pub fn giant_companion(case: &IterCase, ctx: &mut Ctx) -> Verdict {
    use super::access::giant_window;
    let (gc, gr) = crate::giant::shape(case.giant);
    let mut z = crate::giant::owned(gc, gr);
    let tag;
    match case.recv {
        IRecv::M(rv) => match rv.kind {
            RecvKind::Owned => {
                tag = "giant/owned";
                giant_on(&mut z, case, gc)?
            }
            RecvKind::Thin => {
                tag = "giant/third-party";
                giant_on(&mut Thin::new(&mut z), case, gc)?
            }
            RecvKind::SliceMut => {
                tag = "giant/view_mut over slice";
                giant_on(&mut TooDeeViewMut::new(gc, gr, z.data_mut()), case, gc)?
            }
            RecvKind::ViewMut | RecvKind::ThinView => {
                tag = "giant/view_mut";
                let (s, e) = giant_window(gc, gr, rv.m);
                giant_on(&mut z.view_mut(s, e), case, gc)?
            }
            RecvKind::Nested => {
                tag = "giant/nested view_mut";
                let (s, e) = giant_window(gc, gr, rv.m);
                let mut v1 = z.view_mut(s, e);
                let (c1, r1) = v1.size();
                let (s2, e2) = giant_window(c1, r1, rv.m2);
                giant_on(&mut v1.view_mut(s2, e2), case, gc)?
            }
        },
        IRecv::View(m) => {
            tag = "giant/view";
            let (s, e) = giant_window(gc, gr, m);
            giant_shared(&z.view(s, e), case, gc)?
        }
        IRecv::NestedView(m, m2) | IRecv::ViewOfViewMut(m, m2) => {
            tag = "giant/nested view";
            let (s, e) = giant_window(gc, gr, m);
            let v1 = z.view(s, e);
            let (c1, r1) = v1.size();
            let (s2, e2) = giant_window(c1, r1, m2);
            giant_shared(&v1.view(s2, e2), case, gc)?
        }
        IRecv::Slice(slack) => {
            tag = "giant/view over slice";
            let n = (gc * gr).saturating_add(slack as usize);
            giant_shared(&TooDeeView::new(gc, gr, &crate::giant::UNITS[..n]), case, gc)?
        }
    }
    ctx.nt();
    ctx.class("giant-unit-grid");
    ctx.class(tag);
    ctx.class(&format!("{:?}", case.kind));
    Ok(())
}

// ---------------------------------------------------------------------------------------------
// strategies / enumerations

fn irecv(mutable: bool) -> BoxedStrategy<IRecv> {
    let m = prop_oneof![
        3 => Just(Recv::owned()),
        1 => Just(Recv::thin()),
        4 => small_margin().prop_map(Recv::view),
        1 => small_margin().prop_map(Recv::thin_view),
        2 => (small_margin(), small_margin()).prop_map(|(a, b)| Recv::nested(a, b)),
        1 => (0u8..7, 0u8..3).prop_map(|(a, b)| Recv::view([a, b, 6 - a.min(6), 1])),
    ]
    .prop_map(IRecv::M);
    if mutable {
        prop_oneof![8 => m, 1 => (0u8..8).prop_map(IRecv::Slice)].boxed()
    } else {
        prop_oneof![
            5 => m,
            3 => small_margin().prop_map(IRecv::View),
            2 => (small_margin(), small_margin()).prop_map(|(a, b)| IRecv::NestedView(a, b)),
            1 => (small_margin(), small_margin()).prop_map(|(a, b)| IRecv::ViewOfViewMut(a, b)),
            1 => (0u8..8).prop_map(IRecv::Slice),
        ]
        .boxed()
    }
}

fn n_small(cells: bool) -> BoxedStrategy<N> {
    if cells {
        prop_oneof![
            2 => Just(N::Zero),
            3 => any::<u16>().prop_map(N::Frac),
            2 => (0u8..3).prop_map(N::Lit),
            3 => (0u8..3).prop_map(N::Rem),
            3 => (0u8..3, 0u8..3).prop_map(|(m, k)| N::RemRows(m, k)),
        ]
        .boxed()
    } else {
        prop_oneof![
            2 => Just(N::Zero),
            4 => any::<u16>().prop_map(N::Frac),
            3 => (0u8..4).prop_map(N::Lit),
        ]
        .boxed()
    }
}
fn n_big() -> BoxedStrategy<N> {
    prop_oneof![
        2 => Just(N::Lm1),
        2 => Just(N::L),
        1 => Just(N::Lp1),
        1 => Just(N::Max),
        1 => Just(N::HalfMaxP1),
        2 => (1u8..4, 0u8..3).prop_map(|(j, d)| N::Wrap(j, d)),
        1 => (3u8..8, 0u8..3).prop_map(|(m, k)| N::RemRows(m, k)),
    ]
    .boxed()
}

fn body_step(kind: IterKind) -> BoxedStrategy<Step> {
    let cells = !kind.is_col() && !kind.is_rows();
    let mut v: Vec<(u32, BoxedStrategy<Step>)> = vec![
        (3, Just(Step::Next).boxed()),
        (3, Just(Step::NextBack).boxed()),
        (6, n_small(cells).prop_map(Step::Nth).boxed()),
        (6, n_small(cells).prop_map(Step::NthBack).boxed()),
        (1, Just(Step::Len).boxed()),
        (1, Just(Step::SizeHint).boxed()),
    ];
    if kind.is_col() {
        v.push((2, prop_oneof![4 => n_small(false), 2 => n_big()].prop_map(Step::Index).boxed()));
        v.push((1, n_small(false).prop_map(Step::IndexWrite).boxed()));
    } else {
        v.push((1, Just(Step::NumCols).boxed()));
    }
    proptest::strategy::Union::new_weighted(v).boxed()
}

fn tail_step() -> BoxedStrategy<Step> {
    prop_oneof![n_big().prop_map(Step::Nth), n_big().prop_map(Step::NthBack)].boxed()
}

fn terminal() -> BoxedStrategy<Option<Terminal>> {
    prop_oneof![
        3 => Just(None),
        1 => Just(Some(Terminal::Count)),
        1 => Just(Some(Terminal::Last)),
        1 => Just(Some(Terminal::Fold)),
        1 => Just(Some(Terminal::RFold)),
        1 => Just(Some(Terminal::CollectRev)),
        1 => Just(Some(Terminal::ForEach)),
    ]
    .boxed()
}

fn case_strategy(kinds: &'static [IterKind]) -> BoxedStrategy<IterCase> {
    let shape = prop_oneof![
        24 => (2u8..=6, 3u8..=7),
        12 => (0u8..=6, 0u8..=6),
        4 => (1u8..=1, 1u8..=8),
        4 => (1u8..=8, 1u8..=1),
        // well beyond the exhaustive bounds (size-dependent fast paths)
        1 => (0u8..=90, 0u8..=90),
    ];
    let small = (proptest::sample::select(kinds), shape)
        .prop_flat_map(|(kind, (cols, rows))| {
            let w = cols as usize;
            // structured script: a prefix of next / next_back steps (so that partially consumed
            // front and back rows are common), a body of small jumps, at most one big jump last
            let prefix = (0..=(w + 1) as u8, 0..=(w + 1) as u8, any::<u32>());
            (Just(kind), Just((cols, rows)), irecv(kind.is_mut()), prefix, prop::collection::vec(body_step(kind), 0..7), prop::option::weighted(0.45, tail_step()), prop::option::weighted(0.2, body_step(kind)), terminal(), any::<u16>(), prop::bool::weighted(0.04))
        })
        .prop_map(|(kind, (cols, rows), recv, (pf, pb, mask), body, tail, after_tail, end, cfrac, bad_col)| {
            let mut script = Vec::new();
            let (mut f, mut b) = (pf, pb);
            // rows / cols iterators do not need long prefixes
            if kind.is_rows() || kind.is_col() {
                f = f.min(2);
                b = b.min(2);
            }
            let mut m = mask;
            while f > 0 || b > 0 {
                if (m & 1 == 0 && f > 0) || b == 0 {
                    script.push(Step::Next);
                    f -= 1;
                } else {
                    script.push(Step::NextBack);
                    b -= 1;
                }
                m = m.rotate_right(1);
            }
            script.extend(body);
            if let Some(t) = tail {
                script.push(t);
                if let Some(a) = after_tail {
                    script.push(a);
                }
            }
            let col = if bad_col { cols as u64 + (cfrac as u64 % 3) * (u64::MAX / 3) } else { (cfrac as u64 * cols as u64) >> 16 };
            IterCase { cols, rows, recv, kind, col, script, end, giant: 0 }
        });
    let small = small.boxed();
    // giant grids of `()`
    let gn = || prop_oneof![
        2 => Just(N::Zero), 2 => (0u8..4).prop_map(N::Lit), 2 => any::<u16>().prop_map(N::Frac), 2 => Just(N::Lm1), 2 => Just(N::L), 2 => Just(N::Lp1),
        1 => Just(N::Max), 1 => Just(N::HalfMaxP1), 3 => (1u8..4, 0u8..3).prop_map(|(j, d)| N::Wrap(j, d)),
    ];
    let giant = (proptest::sample::select(kinds), 1u8..=crate::giant::SHAPES.len() as u8)
        .prop_flat_map(move |(kind, g)| {
            let mut v: Vec<(u32, BoxedStrategy<Step>)> = vec![
                (2, Just(Step::Next).boxed()), (2, Just(Step::NextBack).boxed()), (5, gn().prop_map(Step::Nth).boxed()), (5, gn().prop_map(Step::NthBack).boxed()), (2, Just(Step::Len).boxed()),
            ];
            if kind.is_col() {
                v.push((3, gn().prop_map(Step::Index).boxed()));
                v.push((1, gn().prop_map(Step::IndexWrite).boxed()));
            }
            (Just(kind), Just(g), irecv(kind.is_mut()), prop::collection::vec(proptest::strategy::Union::new_weighted(v), 0..6), terminal(), any::<u8>())
        })
        .prop_map(|(kind, g, recv, script, end, ci)| {
            let (wc, _wr, stride) = super::access::giant_dims(g, &recv);
            IterCase { cols: 0, rows: 0, recv, kind, col: crate::giant::coord(wc, stride, ci), script, end, giant: g }
        });
    prop_oneof![24 => small, 1 => giant].boxed()
}

pub fn sanitize(k: &mut IterCase, kinds: &[IterKind]) -> bool {
    k.cols %= 9;
    k.rows %= 9;
    if !kinds.contains(&k.kind) {
        k.kind = kinds[(k.cols as usize + k.rows as usize) % kinds.len()];
    }
    let fix = |m: &mut [u8; 4]| m.iter_mut().for_each(|x| *x %= 5);
    match &mut k.recv {
        IRecv::M(rv) => {
            fix(&mut rv.m);
            fix(&mut rv.m2);
        }
        IRecv::View(m) => fix(m),
        IRecv::NestedView(a, b) | IRecv::ViewOfViewMut(a, b) => {
            fix(a);
            fix(b);
        }
        IRecv::Slice(s) => *s %= 9,
    }
    // shared-only receivers cannot give mutable iterators
    if k.kind.is_mut() && matches!(k.recv, IRecv::View(_) | IRecv::NestedView(..) | IRecv::ViewOfViewMut(..)) {
        k.recv = IRecv::M(Recv::view([1, 1, 1, 1]));
    }
    k.script.truncate(16);
    k.giant = if k.giant < 224 { 0 } else { k.giant - 223 };
    true
}

fn enum_giant(kinds: &[IterKind], emit: &mut dyn FnMut(IterCase)) {
    let ns = [N::Zero, N::Lit(1), N::Lm1, N::L, N::Lp1, N::Max, N::Wrap(1, 0), N::Wrap(1, 1)];
    let mut alphabet: Vec<Step> = vec![Step::Next, Step::NextBack, Step::Len];
    alphabet.extend(ns.iter().map(|&n| Step::Nth(n)));
    alphabet.extend(ns.iter().map(|&n| Step::NthBack(n)));
    for &kind in kinds {
        let mut alpha = alphabet.clone();
        if kind.is_col() {
            alpha.extend([N::Zero, N::Lm1, N::L, N::Lp1, N::Max, N::Wrap(1, 0)].iter().map(|&n| Step::Index(n)));
        }
        let recvs: Vec<IRecv> = if kind.is_mut() { vec![IRecv::M(Recv::owned()), IRecv::M(Recv::view([1, 1, 1, 1]))] } else { vec![IRecv::M(Recv::owned()), IRecv::View([1, 1, 1, 1]), IRecv::Slice(1)] };
        for g in 1..=crate::giant::SHAPES.len() as u8 {
            for &recv in &recvs {
                let (wc, _wr, _s) = super::access::giant_dims(g, &recv);
                let cols: Vec<u64> = if kind.is_col() { vec![0, wc as u64 - 1, wc as u64, u64::MAX] } else { vec![0] };
                for col in cols {
                    emit(IterCase { cols: 0, rows: 0, recv, kind, col, script: vec![], end: Some(Terminal::Last), giant: g });
                    for &a in &alpha {
                        emit(IterCase { cols: 0, rows: 0, recv, kind, col, script: vec![a], end: Some(Terminal::Count), giant: g });
                        for &b in &alpha {
                            emit(IterCase { cols: 0, rows: 0, recv, kind, col, script: vec![a, b], end: if matches!(b, Step::Next) { Some(Terminal::Last) } else { None }, giant: g });
                        }
                    }
                }
            }
        }
    }
}

fn enum_cases(kinds: &[IterKind], tier: Tier, emit: &mut dyn FnMut(IterCase)) {
    enum_giant(kinds, emit);
    let alphabet: Vec<Step> = vec![
        Step::Next, Step::NextBack, Step::Nth(N::Zero), Step::Nth(N::Lit(1)), Step::Nth(N::Lit(2)), Step::Nth(N::Lm1), Step::Nth(N::L), Step::Nth(N::Max), Step::Nth(N::Wrap(1, 0)),
        Step::NthBack(N::Zero), Step::NthBack(N::Lit(1)), Step::NthBack(N::Lit(2)), Step::NthBack(N::Lm1), Step::NthBack(N::L), Step::NthBack(N::Max), Step::NthBack(N::Wrap(1, 0)), Step::Len,
    ];
    let depth = if tier == Tier::Quick { 3 } else { 4 };
    let shapes: &[(u8, u8)] = &[(0, 0), (1, 1), (1, 3), (3, 1), (2, 2), (3, 3), (2, 4)];
    for &kind in kinds {
        let recvs: Vec<IRecv> = if kind.is_mut() { vec![IRecv::M(Recv::owned()), IRecv::M(Recv::view([1, 1, 2, 1]))] } else { vec![IRecv::M(Recv::owned()), IRecv::View([1, 1, 2, 1])] };
        for recv in recvs {
            for &(cols, rows) in shapes {
                let ncols = if kind.is_col() { cols.max(1) } else { 1 };
                for col in 0..ncols {
                    if kind.is_col() && cols == 0 {
                        // no column exists: creating the iterator must panic
                        for bad in [0u64, 1, u64::MAX] {
                            emit(IterCase { cols, rows, recv, kind, col: bad, script: vec![], end: None, giant: 0 });
                        }
                        continue;
                    }
                    // all scripts up to `depth`
                    let mut idx = vec![0usize; 0];
                    loop {
                        let script: Vec<Step> = idx.iter().map(|&i| alphabet[i]).collect();
                        emit(IterCase { cols, rows, recv, kind, col: col as u64, script, end: None, giant: 0 });
                        // next script (odometer over lengths 0..=depth)
                        let mut p = idx.len();
                        loop {
                            if p == 0 {
                                if idx.len() < depth {
                                    idx = vec![0; idx.len() + 1];
                                    break;
                                } else {
                                    idx.clear();
                                    p = usize::MAX;
                                    break;
                                }
                            }
                            p -= 1;
                            if idx[p] + 1 < alphabet.len() {
                                idx[p] += 1;
                                for q in p + 1..idx.len() {
                                    idx[q] = 0;
                                }
                                break;
                            }
                        }
                        if p == usize::MAX {
                            break;
                        }
                    }
                }
                if kind.is_col() {
                    for bad in [cols as u64, cols as u64 + 1, u64::MAX] {
                        emit(IterCase { cols, rows, recv, kind, col: bad, script: vec![], end: None, giant: 0 });
                    }
                }
            }
        }
    }
}

macro_rules! iter_prop {
    ($name:ident, $id:expr, $kinds:expr, $rule:expr, $ess:expr) => {
        pub struct $name;
        impl Prop for $name {
            type Case = IterCase;
            const ID: &'static str = $id;
            fn rule() -> &'static str {
                $rule
            }
            fn bound(t: Tier) -> String {
                format!("exhaustive part: every script of length <= {} over a 17-step alphabet (next, next_back, nth/nth_back with n in {{0,1,2,L-1,L,usize::MAX,ceil(2^64/stride)}}, len) x shapes {{0x0,1x1,1x3,3x1,2x2,3x3,2x4}} x {{owned, strided window}} x every column", if t == Tier::Quick { 3 } else { 4 })
            }
            fn enumerate(tier: Tier, emit: &mut dyn FnMut(IterCase)) {
                enum_cases($kinds, tier, emit)
            }
            fn strategy(_t: Tier) -> BoxedStrategy<IterCase> {
                case_strategy($kinds)
            }
            fn random_cases(tier: Tier) -> u64 {
                if tier == Tier::Quick { 800_000 } else { 12_000_000 }
            }
            fn execute(k: &IterCase, ctx: &mut Ctx) -> Verdict {
                if k.giant > 0 {
                    return giant_companion(k, ctx);
                }
                execute(k, ctx)?;
                // every fourth case also runs on a zero-sized element type
                if (k.script.len() + k.cols as usize + k.rows as usize) % 4 == 0 {
                    zst_companion(k)?;
                    ctx.class("zero-sized-companion");
                }
                Ok(())
            }
            fn fuzz_sanitize(k: &mut IterCase) -> bool {
                sanitize(k, $kinds)
            }
            fn essential_classes() -> &'static [&'static str] {
                $ess
            }
        }
    };
}

iter_prop!(
    C08,
    "C08",
    &[IterKind::Rows, IterKind::RowsMut],
    "rows() / rows_mut() on {owned, view, mutable view, nested views, view over a plain slice, third-party wrapper} (shapes 0..8, parents up to 14 wide so that stride > width, width 1, height 1 and empty all occur) driven by a script of next / next_back / nth(n) / nth_back(n) / len / size_hint / num_cols plus a terminal count / last / fold / rfold / rev-collect / for-loop; n symbolic: 0, k < L, L-1, L, L+1, usize::MAX, usize::MAX/2+1, ceil(2^64/stride)*j+d. Oracle: ideal VecDeque stepped in lock-step, every item compared by address, length and value, len/size_hint after every step; rows_mut items are all kept alive, checked pairwise disjoint, written through and the whole parent compared. Non-trivial = script with state-changing steps from both ends, or an nth/nth_back with n >= 1. Distinct = distinct case. Also: the same kinds of script on giant grids of () (~usize::MAX cells; Some/None, row lengths and length reports only).",
    &["giant-unit-grid", "Rows", "RowsMut", "stride>width", "width-1", "height-1", "empty", "nth-overflow-provoking-n", "stride>=8"]
);
iter_prop!(
    C09,
    "C09",
    &[IterKind::Col, IterKind::ColMut],
    "col(c) / col_mut(c) for every column of {owned, view, mutable view, nested views, slice view, third-party wrapper} incl. single-column parents (stride 1) and parents up to 14 wide, driven by a script of next / next_back / nth / nth_back / len / size_hint / [i] / [i] = v on the remaining sequence plus a terminal; n and i symbolic incl. usize::MAX and ceil(2^64/stride)*j+d (wrap-provoking). Oracle: ideal VecDeque in lock-step (address + value), col[i] beyond the remaining length and col(c) with c out of range must panic; col_mut items kept alive, pairwise disjoint, written through, whole parent compared. Non-trivial = state-changing steps from both ends, or a jump with n >= 1, or an out-of-range column. Distinct = distinct case. Also: the same kinds of script (incl. col[i]) on giant grids of ().",
    &["giant-unit-grid", "Col", "ColMut", "stride>width", "single-column-parent(stride 1)", "index-in-range", "index-out-of-range-panics", "col-out-of-range-panics", "nth-overflow-provoking-n", "stride>=8"]
);
iter_prop!(
    C10,
    "C10",
    &[IterKind::Cells, IterKind::CellsMut, IterKind::IntoIterRef, IterKind::IntoIterMut],
    "cells() / cells_mut() / the IntoIterator forms on references, on {owned, view, mutable view, nested views, slice view, third-party wrapper}: structured scripts = a prefix of 0..w+1 next and 0..w+1 next_back steps (so partially consumed front and back rows are common), a body of small jumps (within the partial row, to its end, row-crossing, exact row multiples), at most one exhausting jump near the end, plus a terminal last / fold / rfold / rev-collect / for-loop. Oracle: ideal row-major VecDeque in lock-step (address + value), len/size_hint/num_cols; cells_mut items kept alive, pairwise disjoint, written through, whole parent compared. Non-trivial = state-changing steps from both ends, or a jump with n >= 1. The evidence classes report, per nth/nth_back call, the 8 combinations of {front row partial, middle rows left, back row partial} and the jump kind. Distinct = distinct case. Also: len / nth / nth_back / last scripts on giant grids of ().",
    &["giant-unit-grid", "Cells", "CellsMut", "IntoIterRef", "IntoIterMut", "stride>width", "jump-within-row", "jump-to-row-start", "jump-row-crossing", "jump-beyond-end",
      "nth-state front-partial=1 middle-rows=1 back-partial=1", "nth-state front-partial=1 middle-rows=0 back-partial=1", "nth-state front-partial=1 middle-rows=1 back-partial=0", "nth-state front-partial=0 middle-rows=1 back-partial=1"]
);
