//! Model-based histories on an owned array: the engine behind C01 (shape + cells agree with
//! a rows-of-cells model after every step) and C05 (drop ledger after every step).

use crate::cases::*;
use crate::elem::{self, Bx, Elem, Tr, Zs};
use crate::model::{stable_perm, Model};
use crate::runner::*;
use crate::{ensure, fail};
use proptest::prelude::*;
use serde::{Deserialize, Serialize};
use std::collections::{HashSet, VecDeque};
use toodee::*;

#[derive(Serialize, Deserialize, Clone, Copy, Debug, PartialEq)]
pub enum LenSpec {
    /// the length the array expects (or `k % 6` when it is empty)
    Match(u8),
    /// expected length + d
    Off(i8),
    Exact(u8),
}
impl LenSpec {
    pub fn resolve(&self, other_dim: usize, empty: bool) -> usize {
        match *self {
            LenSpec::Match(k) => {
                if empty {
                    k as usize % 6
                } else {
                    other_dim
                }
            }
            LenSpec::Off(d) => (other_dim as i64 + d as i64).max(0) as usize,
            LenSpec::Exact(k) => k as usize % 8,
        }
    }
}

#[derive(Serialize, Deserialize, Clone, Copy, Debug, PartialEq)]
pub enum Src {
    Vec,
    Map,
    Deque,
    RevVec,
}

#[derive(Serialize, Deserialize, Clone, Copy, Debug, PartialEq)]
pub enum DStep {
    Next,
    NextBack,
    Len,
    SizeHint,
    /// `nth(k)`: the k skipped elements are dropped by the iterator, the next one is yielded
    Nth(u8),
    NthBack(u8),
    /// `by_ref().count()` / `.last()` / `.rev().fold(..)`: consume (and drop) the rest
    CountRest,
    LastRest,
    RFoldRest,
}

#[derive(Serialize, Deserialize, Clone, Debug, PartialEq)]
pub enum Ctor {
    Default,
    WithCapacity(u8),
    New(Dim, Dim),
    Init(Dim, Dim),
    FromVec { c: Dim, r: Dim, delta: i8, spare: u8 },
    FromBox { c: Dim, r: Dim, delta: i8 },
}

#[derive(Serialize, Deserialize, Clone, Debug, PartialEq)]
pub enum InPlace {
    Fill(u8),
    SetCell(Ix, Ix, u8),
    SetViaRow(Ix, Ix, u8),
    Swap(Ix, Ix, Ix, Ix),
    SwapRows(Ix, Ix),
    SwapCols(Ix, Ix),
    Translate(Ix, Ix),
    FlipRows,
    FlipCols,
    /// form 0..6: by_row, by_row_key, row_ord, unstable_by_row, unstable_by_row_key, unstable_row_ord
    SortRow { line: Ix, form: u8 },
    SortCol { line: Ix, form: u8 },
}

#[derive(Serialize, Deserialize, Clone, Debug, PartialEq)]
pub enum Op {
    InsertRow { at: Ix, len: LenSpec, src: Src },
    PushRow { len: LenSpec, src: Src },
    InsertCol { at: Ix, len: LenSpec, src: Src },
    PushCol { len: LenSpec, src: Src },
    /// an insert whose iterator *reports* the expected length but yields `yield_delta` more or
    /// fewer items: the effect on the contents is unspecified (C11 allows losing elements), but
    /// the shape invariant must hold afterwards; the model is re-read from the array
    InsertLying { row: bool, push: bool, at: Ix, yield_delta: i8, #[serde(default)] huge: bool },
    RemoveRow { at: Ix, script: Vec<DStep> },
    PopRow { script: Vec<DStep> },
    RemoveCol { at: Ix, script: Vec<DStep> },
    PopCol { script: Vec<DStep> },
    Clear,
    SwapDims,
    Reserve(u8),
    ReserveExact(u8),
    Shrink,
    Whole(InPlace),
    InView { win: Win, op: InPlace },
    SetViaData(Ix, u8),
    Rebuild(Ctor),
    IntoVecBack,
    IntoBoxBack,
    IntoIterTake(u8, u8),
    CloneSelf,
    /// `t.clone_from(&other)` where `other` is a freshly built array whose shape differs by (dc, dr)
    CloneFromOther(i8, i8),
    FromViewSelf(Win),
    FromViewMutSelf(Win),
    CloneFromSlice(i8),
    CloneFromToodee(i8),
    DropHeld,
    /// (C05 only) remove a row / column, take `front` / `back` items from the drain and leak it
    /// (`mem::forget`): elements may be lost (C12), but none may be dropped twice or stay
    /// reachable after being dropped, now or later; the model is re-read afterwards
    LeakDrain { row: bool, at: Ix, front: u8, back: u8 },
    /// (C05 only) run `op` with the k-th call into the element type's Clone / Default / Drop /
    /// comparison panicking: which elements survive is unspecified (C11), but nothing may be
    /// dropped twice or stay reachable after it was dropped; the model is re-read afterwards
    Faulted { op: Box<Op>, k: u8 },
}

#[derive(Serialize, Deserialize, Clone, Debug, PartialEq)]
pub struct History {
    pub elem: ElemKind,
    /// when true, operations the model classifies as rejected are skipped instead of executed
    pub valid_only: bool,
    pub ctor: Ctor,
    pub ops: Vec<Op>,
    /// Some: the case is a history on a giant array of `()` instead (props/gianthist.rs)
    #[serde(default)]
    pub giant: Option<super::gianthist::GiantHist>,
}

#[derive(Clone, Copy, PartialEq, Eq, Debug)]
pub enum Mode {
    /// C01: shape invariant and cell-for-cell agreement with the model
    Shape,
    /// C05: drop ledger
    Drops,
}

struct Eng<'c, E: Elem> {
    t: TooDee<E>,
    m: Model,
    held: Vec<E>,
    mode: Mode,
    valid_only: bool,
    any_panic: bool,
    ctx: &'c mut Ctx,
    // classification
    structural_axes: (bool, bool),
    went_empty: bool,
    regrew: bool,
    rejected_then_ok: u8,
    drain_partial: bool,
    insert_nonempty: bool,
    diverged: bool,
}

type El<E> = TooDee<E>;

fn ids_of<E: Elem>(t: &El<E>) -> Vec<u64> {
    t.data().iter().map(|e| e.id()).collect()
}

fn mint_line<E: Elem>(n: usize, keyctr: &mut u8) -> (Vec<E>, Vec<u64>) {
    let mut v = Vec::with_capacity(n);
    let mut ids = Vec::with_capacity(n);
    for _ in 0..n {
        *keyctr = keyctr.wrapping_mul(5).wrapping_add(3);
        let e = E::mint(*keyctr % 4);
        ids.push(e.id());
        v.push(e);
    }
    (v, ids)
}

macro_rules! with_src {
    ($src:expr, $v:expr, |$it:ident| $body:expr) => {
        match $src {
            Src::Vec => {
                let $it = $v;
                $body
            }
            Src::Map => {
                let $it = $v.into_iter().map(|x| x);
                $body
            }
            Src::Deque => {
                let $it = VecDeque::from($v);
                $body
            }
            Src::RevVec => {
                let mut w = $v;
                w.reverse();
                let $it = w.into_iter().rev();
                $body
            }
        }
    };
}

impl<'c, E: Elem + Clone + Default + Ord> Eng<'c, E> {
    /// C01 oracle (and the part of it C05 relies on to stay in step with the model).
    fn check(&mut self, after: &str) -> Verdict {
        let t = &self.t;
        let (c, r) = (t.num_cols(), t.num_rows());
        let len = t.data().len();
        if self.mode == Mode::Shape {
            ensure!(c.checked_mul(r) == Some(len), "dims-vs-len", "after {}: num_cols {} * num_rows {} != data().len() {}", after, c, r, len);
            ensure!((c == 0) == (r == 0), "zero-rule", "after {}: size ({},{}) has exactly one zero dimension", after, c, r);
            ensure!(t.size() == (c, r), "size()", "after {}: size() {:?} != ({},{})", after, t.size(), c, r);
            ensure!(t.rows().len() == r, "rows-len", "after {}: rows().len() {} != num_rows {}", after, t.rows().len(), r);
            ensure!(t.cells().len() == c * r, "cells-len", "after {}: cells().len() {} != {}", after, t.cells().len(), c * r);
            for cc in 0..c {
                let l = t.col(cc).len();
                ensure!(l == r, "col-len", "after {}: col({}).len() {} != num_rows {}", after, cc, l, r);
            }
            ensure!(t.is_empty() == (len == 0), "is_empty", "after {}: is_empty() {} with len {}", after, t.is_empty(), len);
            ensure!((c, r) == self.m.size(), "size-vs-model", "after {}: size ({},{}) but the model has {:?}", after, c, r, self.m.size());
            if !E::ZST {
                let ids = ids_of(t);
                let want = self.m.flat();
                ensure!(ids == want, "cells-vs-model", "after {}: data() ids {:?} but the model has {:?}", after, ids, want);
                for y in 0..r {
                    ensure!(t[y].len() == c, "row-len", "after {}: row {} has length {}", after, y, t[y].len());
                    for x in 0..c {
                        let id = t[(x, y)].id();
                        ensure!(id == self.m.get(x, y), "index-vs-model", "after {}: t[({},{})] id {} but the model has {}", after, x, y, id, self.m.get(x, y));
                    }
                }
            }
            Ok(())
        } else {
            // C05: stay silent about shape/cell divergence (that is C01's business), but stop
            // the history there because the ledger expectations depend on the model.
            if c.checked_mul(r) != Some(len) || (c, r) != self.m.size() || (!E::ZST && ids_of(t) != self.m.flat()) {
                self.diverged = true;
                return Ok(());
            }
            self.check_ledger(after)
        }
    }

    fn check_ledger(&mut self, after: &str) -> Verdict {
        let dd = elem::double_drops();
        ensure!(dd.is_empty(), "double-drop", "after {}: elements dropped twice: {:?}", after, dd);
        if E::ZST {
            let (created, dropped) = elem::zs_counts();
            ensure!(dropped <= created, "zst-overdrop", "after {}: {} zero-sized values created but {} dropped", after, created, dropped);
            if !self.any_panic {
                let reach = (self.t.data().len() + self.held.len()) as u64;
                ensure!(created - dropped == reach, "zst-balance", "after {}: created {} - dropped {} != reachable {}", after, created, dropped, reach);
            }
            return Ok(());
        }
        if !E::TRACKED {
            return Ok(());
        }
        let mut seen = HashSet::new();
        for e in self.t.data().iter().chain(self.held.iter()) {
            let id = e.id();
            ensure!(elem::is_live(id), "reachable-but-dropped", "after {}: element {} is reachable but was already dropped", after, id);
            ensure!(seen.insert(id), "duplicated", "after {}: element {} is reachable twice", after, id);
        }
        if !self.any_panic {
            let live = elem::live_count();
            ensure!(live == seen.len() as u64, "leak", "after {}: {} elements are live but only {} are reachable (array + handed to the caller); leaked ids {:?}", after, live, seen.len(), {
                let mut l = elem::live_ids();
                l.retain(|i| !seen.contains(i));
                l
            });
        }
        Ok(())
    }

    fn build(&mut self, ctor: &Ctor, keyctr: &mut u8) -> Result<Option<(El<E>, Model)>, Failure> {
        // returns None when the model says the request is rejected and we skipped or it panicked
        let (legal, res): (bool, Result<El<E>, String>) = match ctor {
            Ctor::Default => (true, catch(El::<E>::default)),
            Ctor::WithCapacity(n) => {
                let n = *n as usize;
                (true, catch(|| El::<E>::with_capacity(n)))
            }
            Ctor::New(c, r) => {
                let (c, r) = (c.get(), r.get());
                let legal = dims_legal(c, r);
                if !legal && self.valid_only {
                    return Ok(None);
                }
                if legal && c * r > 4096 {
                    return Ok(None);
                }
                (legal, catch(|| El::<E>::new(c, r)))
            }
            Ctor::Init(c, r) => {
                let (c, r) = (c.get(), r.get());
                let legal = dims_legal(c, r);
                if !legal && self.valid_only {
                    return Ok(None);
                }
                if legal && c * r > 4096 {
                    return Ok(None);
                }
                *keyctr = keyctr.wrapping_add(1);
                let k = *keyctr % 4;
                (legal, catch(|| El::<E>::init(c, r, E::mint(k))))
            }
            Ctor::FromVec { c, r, delta, spare } => {
                let (c, r) = (c.get(), r.get());
                let n = match c.checked_mul(r) {
                    Some(p) if p <= 4096 => (p as i64 + *delta as i64).max(0) as usize,
                    _ => delta.unsigned_abs() as usize,
                };
                let legal = dims_legal(c, r) && c * r == n;
                if !legal && self.valid_only {
                    return Ok(None);
                }
                let (mut v, _) = mint_line::<E>(n, keyctr);
                if *spare > 0 {
                    v.reserve_exact(*spare as usize);
                } else {
                    v.shrink_to_fit();
                }
                (legal, catch(|| El::<E>::from_vec(c, r, v)))
            }
            Ctor::FromBox { c, r, delta } => {
                let (c, r) = (c.get(), r.get());
                let n = match c.checked_mul(r) {
                    Some(p) if p <= 4096 => (p as i64 + *delta as i64).max(0) as usize,
                    _ => delta.unsigned_abs() as usize,
                };
                let legal = dims_legal(c, r) && c * r == n;
                if !legal && self.valid_only {
                    return Ok(None);
                }
                let (v, _) = mint_line::<E>(n, keyctr);
                (legal, catch(|| El::<E>::from_box(c, r, v.into_boxed_slice())))
            }
        };
        match res {
            Ok(t) => {
                if !legal {
                    self.ctx.class("ctor-accepted-though-model-rejects");
                }
                // the model of a freshly constructed array is read from it, after checking that
                // it has the requested shape (the ids are minted inside the constructor)
                let (c, r) = (t.num_cols(), t.num_rows());
                let m = if c.checked_mul(r) == Some(t.data().len()) && (c == 0) == (r == 0) {
                    Model::from_flat(c, r, &ids_of(&t))
                } else {
                    // broken shape: keep an empty model so that check() reports it
                    Model::new()
                };
                if legal {
                    let want = match ctor {
                        Ctor::Default | Ctor::WithCapacity(_) => (0, 0),
                        Ctor::New(c, r) | Ctor::Init(c, r) => (c.get(), r.get()),
                        Ctor::FromVec { c, r, .. } | Ctor::FromBox { c, r, .. } => (c.get(), r.get()),
                    };
                    if self.mode == Mode::Shape {
                        ensure!((c, r) == want, "ctor-size", "{:?} produced size ({},{})", ctor, c, r);
                    }
                }
                Ok(Some((t, m)))
            }
            Err(msg) => {
                self.any_panic = true;
                if legal && self.mode == Mode::Shape {
                    fail!("ctor-panicked", "{:?} is a legal request but panicked: {}", ctor, msg);
                }
                Ok(None)
            }
        }
    }

    /// In-place operation on `x` (the whole array or a mutable window) with `m` its model.
    /// Returns (valid, panic message).
    fn inplace<X: TooDeeOpsMut<E> + SortOps<E> + TranslateOps<E>>(x: &mut X, m: &mut Model, op: &InPlace, valid_only: bool, shape_mode: bool) -> Result<(bool, Option<String>, bool), Failure> {
        let (c, r) = m.size();
        let key_of = |e: &E| e.key();
        let mut minted = false;
        let (valid, res): (bool, Result<(), String>) = match op {
            InPlace::Fill(k) => {
                minted = true;
                let k = *k % 4;
                (true, catch(|| x.fill(E::mint(k))))
            }
            InPlace::SetCell(ci, ri, k) => {
                let (cc, rr) = (ci.resolve(c), ri.resolve(r));
                let valid = cc < c && rr < r;
                if !valid && valid_only {
                    return Ok((false, None, true));
                }
                minted = true;
                let k = *k % 4;
                (valid, catch(|| x[(cc, rr)] = E::mint(k)))
            }
            InPlace::SetViaRow(ci, ri, k) => {
                let (cc, rr) = (ci.resolve(c), ri.resolve(r));
                let valid = cc < c && rr < r;
                if !valid && valid_only {
                    return Ok((false, None, true));
                }
                minted = true;
                let k = *k % 4;
                (valid, catch(|| x[rr][cc] = E::mint(k)))
            }
            InPlace::Swap(c1, r1, c2, r2) => {
                let a = (c1.resolve(c), r1.resolve(r));
                let b = (c2.resolve(c), r2.resolve(r));
                let valid = a.0 < c && b.0 < c && a.1 < r && b.1 < r;
                if !valid && valid_only {
                    return Ok((false, None, true));
                }
                let res = catch(|| x.swap(a, b));
                if valid {
                    m.swap(a, b);
                }
                (valid, res)
            }
            InPlace::SwapRows(r1, r2) => {
                let (a, b) = (r1.resolve(r), r2.resolve(r));
                let valid = a < r && b < r;
                if !valid && valid_only {
                    return Ok((false, None, true));
                }
                let res = catch(|| x.swap_rows(a, b));
                if valid {
                    m.rows.swap(a, b);
                }
                (valid, res)
            }
            InPlace::SwapCols(c1, c2) => {
                let (a, b) = (c1.resolve(c), c2.resolve(c));
                let valid = a < c && b < c;
                if !valid && valid_only {
                    return Ok((false, None, true));
                }
                let res = catch(|| x.swap_cols(a, b));
                if valid {
                    m.swap_cols(a, b);
                }
                (valid, res)
            }
            InPlace::Translate(mc, mr) => {
                let (a, b) = (mc.resolve(c), mr.resolve(r));
                let valid = a <= c && b <= r;
                if !valid && valid_only {
                    return Ok((false, None, true));
                }
                let res = catch(|| x.translate_with_wrap((a, b)));
                if valid {
                    m.translate(a, b);
                }
                (valid, res)
            }
            InPlace::FlipRows => {
                let res = catch(|| x.flip_rows());
                m.flip_rows();
                (true, res)
            }
            InPlace::FlipCols => {
                let res = catch(|| x.flip_cols());
                m.flip_cols();
                (true, res)
            }
            InPlace::SortRow { line, form } => {
                let l = line.resolve(r);
                let valid = l < r;
                if !valid && valid_only {
                    return Ok((false, None, true));
                }
                let form = *form % 6;
                let keys: Vec<u64> = if valid { x[l].iter().map(|e| if form % 3 == 2 { e.ord_key() } else { key_of(e) as u64 }).collect() } else { vec![] };
                let res = catch(|| match form {
                    0 => x.sort_by_row(l, |a, b| a.key().cmp(&b.key())),
                    1 => x.sort_by_row_key(l, |a| a.key()),
                    2 => x.sort_row_ord::<()>(l),
                    3 => x.sort_unstable_by_row(l, |a, b| a.key().cmp(&b.key())),
                    4 => x.sort_unstable_by_row_key(l, |a| a.key()),
                    _ => x.sort_unstable_row_ord::<()>(l),
                });
                if valid && res.is_ok() {
                    if form < 3 || E::ZST {
                        m.permute_cols(&stable_perm(&keys));
                    } else {
                        // unstable: any permutation of *whole columns* that orders the line (matched on
                        // complete columns: the ids of a single line need not be unique)
                        let mut perm = Vec::with_capacity(c);
                        let mut used = vec![false; c];
                        for j in 0..c {
                            let got: Vec<u64> = x.col(j).map(|e| e.id()).collect();
                            match (0..c).find(|&i| !used[i] && m.col(i) == got) {
                                Some(i) => {
                                    used[i] = true;
                                    perm.push(i);
                                }
                                None => {
                                    if shape_mode {
                                        fail!("unstable-sort-not-a-permutation", "sort form {} of row {}: result column {} = {:?} is not one of the original columns (or appears twice)", form, l, j, got);
                                    } else {
                                        return Ok((valid, None, false));
                                    }
                                }
                            }
                        }
                        let newkeys: Vec<u64> = perm.iter().map(|&j| keys[j]).collect();
                        if shape_mode {
                            ensure!(newkeys.windows(2).all(|w| w[0] <= w[1]), "unstable-sort-not-ordered", "sort form {} of row {} left keys {:?}", form, l, newkeys);
                        }
                        m.permute_cols(&perm);
                    }
                }
                (valid, res)
            }
            InPlace::SortCol { line, form } => {
                let l = line.resolve(c);
                let valid = l < c;
                if !valid && valid_only {
                    return Ok((false, None, true));
                }
                let form = *form % 6;
                let keys: Vec<u64> = if valid { x.col(l).map(|e| if form == 2 { e.ord_key() } else { key_of(e) as u64 }).collect() } else { vec![] };
                let res = catch(|| match form {
                    0 => x.sort_by_col(l, |a, b| a.key().cmp(&b.key())),
                    1 => x.sort_by_col_key(l, |a| a.key()),
                    2 => x.sort_col_ord::<()>(l),
                    3 => x.sort_unstable_by_col(l, |a, b| a.key().cmp(&b.key())),
                    4 => x.sort_unstable_by_col_key(l, |a| a.key()),
                    _ => x.sort_unstable_by_col(l, |a, b| b.key().cmp(&a.key())),
                });
                if valid && res.is_ok() {
                    if form < 3 || E::ZST {
                        m.permute_rows(&stable_perm(&keys));
                    } else {
                        let mut perm = Vec::with_capacity(r);
                        let mut used = vec![false; r];
                        for j in 0..r {
                            let got: Vec<u64> = x[j].iter().map(|e| e.id()).collect();
                            match (0..r).find(|&i| !used[i] && m.rows[i] == got) {
                                Some(i) => {
                                    used[i] = true;
                                    perm.push(i);
                                }
                                None => {
                                    if shape_mode {
                                        fail!("unstable-sort-not-a-permutation", "sort form {} of col {}: result row {} = {:?} is not one of the original rows (or appears twice)", form, l, j, got);
                                    } else {
                                        return Ok((valid, None, false));
                                    }
                                }
                            }
                        }
                        let newkeys: Vec<u64> = perm.iter().map(|&j| keys[j]).collect();
                        if shape_mode {
                            let ok = if form == 5 { newkeys.windows(2).all(|w| w[0] >= w[1]) } else { newkeys.windows(2).all(|w| w[0] <= w[1]) };
                            ensure!(ok, "unstable-sort-not-ordered", "sort form {} of col {} left keys {:?}", form, l, newkeys);
                        }
                        m.permute_rows(&perm);
                    }
                }
                (valid, res)
            }
        };
        if minted && valid && res.is_ok() && !E::ZST {
            // cells written with freshly minted values: read their ids into the model after
            // checking that they are new (a skipped write would keep the old id) and carry the key
            let old: HashSet<u64> = m.flat().into_iter().collect();
            let (cells, key): (Vec<(usize, usize)>, u8) = match op {
                InPlace::Fill(k) => ((0..r).flat_map(|y| (0..c).map(move |x| (x, y))).collect(), *k % 4),
                InPlace::SetCell(ci, ri, k) | InPlace::SetViaRow(ci, ri, k) => (vec![(ci.resolve(c), ri.resolve(r))], *k % 4),
                _ => unreachable!(),
            };
            for (cx, cy) in cells {
                let e = &x[(cx, cy)];
                if shape_mode {
                    ensure!(!old.contains(&e.id()) && e.key() == key, "write-not-applied", "{:?}: cell ({},{}) holds id {} key {} instead of a new value with key {}", op, cx, cy, e.id(), e.key(), key);
                }
                m.set(cx, cy, e.id());
            }
        }
        Ok((valid, res.err(), false))
    }

    fn note_result(&mut self, valid: bool, panicked: bool) {
        if panicked {
            self.any_panic = true;
        }
        if !valid {
            self.ctx.class("op-rejected-by-model");
            if self.rejected_then_ok == 0 {
                self.rejected_then_ok = 1;
            }
        } else {
            self.ctx.class("op-valid");
        }
    }

    fn run_drain<D: Iterator<Item = E> + DoubleEndedIterator + ExactSizeIterator>(d: &mut D, script: &[DStep], n: usize, held: &mut Vec<E>) -> (usize, usize) {
        let (mut f, mut b) = (0usize, 0usize);
        for s in script {
            match s {
                DStep::Next => {
                    if let Some(e) = d.next() {
                        f += 1;
                        held.push(e);
                    }
                }
                DStep::NextBack => {
                    if let Some(e) = d.next_back() {
                        b += 1;
                        held.push(e);
                    }
                }
                DStep::Len => {
                    let _ = d.len();
                }
                DStep::SizeHint => {
                    let _ = d.size_hint();
                }
                DStep::Nth(k) => {
                    if let Some(e) = d.nth(*k as usize % 4) {
                        f += 1;
                        held.push(e);
                    }
                }
                DStep::NthBack(k) => {
                    if let Some(e) = d.nth_back(*k as usize % 4) {
                        b += 1;
                        held.push(e);
                    }
                }
                DStep::CountRest => {
                    let _ = d.by_ref().count();
                }
                DStep::LastRest => {
                    if let Some(e) = d.by_ref().last() {
                        b += 1;
                        held.push(e);
                    }
                }
                DStep::RFoldRest => {
                    let n = d.by_ref().rev().fold(0usize, |a, _e| a + 1);
                    let _ = n;
                }
            }
        }
        let _ = n;
        (f, b)
    }

    fn apply(&mut self, op: &Op, keyctr: &mut u8) -> Verdict {
        let (c, r) = self.m.size();
        let empty = self.m.is_empty();
        let shape_mode = self.mode == Mode::Shape;
        if let Op::Faulted { op: inner, k } = op {
            if shape_mode || matches!(**inner, Op::Faulted { .. }) || self.valid_only && false {
                // C01 does not cover panics in caller code: run the plain operation
                return if matches!(**inner, Op::Faulted { .. }) { Ok(()) } else { self.apply(inner, keyctr) };
            }
            elem::arm(Some(*k as u64));
            // the fuse may also blow while the *harness* drops elements (e.g. when it replaces
            // the array), outside the operation's own catch: contain that as well
            let res = match catch(|| self.apply(inner, keyctr)) {
                Ok(v) => v,
                Err(msg) => {
                    if elem::fired() {
                        Ok(())
                    } else {
                        elem::disarm();
                        fail!("unexpected-panic", "panic escaped while applying {:?}: {}", inner, msg);
                    }
                }
            };
            let fired = elem::fired();
            elem::disarm();
            if fired {
                self.ctx.class("caller-code-fault-fired");
                self.any_panic = true;
                // unspecified outcome: re-read the model (or leave the rest to C11 if the shape broke)
                let t = &self.t;
                let (c2, r2) = (t.num_cols(), t.num_rows());
                if c2.checked_mul(r2) == Some(t.data().len()) && (c2 == 0) == (r2 == 0) {
                    self.m = Model::from_flat(c2, r2, &ids_of(t));
                } else {
                    self.diverged = true;
                }
                return Ok(());
            }
            return res;
        }
        match op {
            Op::InsertRow { .. } | Op::PushRow { .. } => {
                let (at, len, src) = match op {
                    Op::InsertRow { at, len, src } => (Some(at.resolve(r)), len.resolve(c, empty), *src),
                    Op::PushRow { len, src } => (None, len.resolve(c, empty), *src),
                    _ => unreachable!(),
                };
                let valid = self.m.can_insert_row(at.unwrap_or(r), len);
                if !valid && self.valid_only {
                    self.ctx.class("skipped-invalid");
                    return Ok(());
                }
                let (v, ids) = mint_line::<E>(len, keyctr);
                let t = &mut self.t;
                let res = with_src!(src, v, |it| catch(move || match at {
                    Some(i) => t.insert_row(i, it),
                    None => t.push_row(it),
                }));
                if valid {
                    if !empty && len > 0 {
                        self.insert_nonempty = true;
                    }
                    if empty && len > 0 && self.went_empty {
                        self.regrew = true;
                    }
                    self.m.insert_row(at.unwrap_or(r), ids);
                    self.structural_axes.0 = true;
                }
                self.note_result(valid, res.is_err());
            }
            Op::InsertCol { .. } | Op::PushCol { .. } => {
                let (at, len, src) = match op {
                    Op::InsertCol { at, len, src } => (Some(at.resolve(c)), len.resolve(r, empty), *src),
                    Op::PushCol { len, src } => (None, len.resolve(r, empty), *src),
                    _ => unreachable!(),
                };
                let valid = self.m.can_insert_col(at.unwrap_or(c), len);
                if !valid && self.valid_only {
                    self.ctx.class("skipped-invalid");
                    return Ok(());
                }
                let (v, ids) = mint_line::<E>(len, keyctr);
                let t = &mut self.t;
                let res = with_src!(src, v, |it| catch(move || match at {
                    Some(i) => t.insert_col(i, it),
                    None => t.push_col(it),
                }));
                if valid {
                    if !empty && len > 0 {
                        self.insert_nonempty = true;
                    }
                    if empty && len > 0 && self.went_empty {
                        self.regrew = true;
                    }
                    self.m.insert_col(at.unwrap_or(c), ids);
                    self.structural_axes.1 = true;
                }
                self.note_result(valid, res.is_err());
            }
            Op::InsertLying { row, push, at, yield_delta, huge } => {
                let (dim, other) = if *row { (r, c) } else { (c, r) };
                let i = at.resolve(dim).min(dim);
                let expected = if empty { 2 } else { other };
                let n = (expected as i64 + (*yield_delta).clamp(-2, 2) as i64).max(0) as usize;
                // (a zero-sized element type with an enormous claimed length would loop ~2^64 times)
                if self.valid_only || (*huge && E::ZST) {
                    self.ctx.class("skipped-invalid");
                    return Ok(());
                }
                let (v, _) = mint_line::<E>(n, keyctr);
                // `huge`: the iterator claims usize::MAX items, so reserving room for it must fail
                let it = super::fault::FIter::new(v, if *huge { super::fault::Report::Max } else { super::fault::Report::Expected }, expected);
                let t = &mut self.t;
                let (row, push) = (*row, *push);
                let res = catch(move || match (row, push) {
                    (true, false) => t.insert_row(i, it),
                    (true, true) => t.push_row(it),
                    (false, false) => t.insert_col(i, it),
                    (false, true) => t.push_col(it),
                });
                self.any_panic = true;
                self.ctx.class(if res.is_err() { "lying-iterator-rejected" } else { "lying-iterator-accepted" });
                // re-synchronise: only the shape invariant is demanded of the outcome
                let t = &self.t;
                let (c2, r2) = (t.num_cols(), t.num_rows());
                if c2.checked_mul(r2) == Some(t.data().len()) && (c2 == 0) == (r2 == 0) {
                    self.m = Model::from_flat(c2, r2, &ids_of(t));
                } else if shape_mode {
                    fail!("lying-iterator/invalid-shape", "after an insert whose iterator yields {} items but reports {}: size ({},{}) with {} cells", n, if *huge { "usize::MAX".to_string() } else { expected.to_string() }, c2, r2, t.data().len());
                } else {
                    self.diverged = true;
                }
                if self.m.is_empty() {
                    self.went_empty = true;
                }
            }
            Op::RemoveRow { .. } | Op::PopRow { .. } => {
                let (at, script) = match op {
                    Op::RemoveRow { at, script } => (Some(at.resolve(r)), script),
                    Op::PopRow { script } => (None, script),
                    _ => unreachable!(),
                };
                let valid = at.map_or(true, |i| i < r);
                if !valid && self.valid_only {
                    self.ctx.class("skipped-invalid");
                    return Ok(());
                }
                let t = &mut self.t;
                let held = &mut self.held;
                let res = catch(move || match at {
                    Some(i) => {
                        let mut d = t.remove_row(i);
                        Some(Self::run_drain(&mut d, script, c, held))
                    }
                    None => t.pop_row().map(|mut d| Self::run_drain(&mut d, script, c, held)),
                });
                if valid && (at.is_some() || r > 0) {
                    self.m.remove_row(at.unwrap_or(r.saturating_sub(1)));
                    self.structural_axes.0 = true;
                    if let Ok(Some((f, b))) = &res {
                        if f + b > 0 && f + b < c {
                            self.drain_partial = true;
                        }
                    }
                    if self.m.is_empty() {
                        self.went_empty = true;
                    }
                }
                self.note_result(valid, res.is_err());
            }
            Op::RemoveCol { .. } | Op::PopCol { .. } => {
                let (at, script) = match op {
                    Op::RemoveCol { at, script } => (Some(at.resolve(c)), script),
                    Op::PopCol { script } => (None, script),
                    _ => unreachable!(),
                };
                let valid = at.map_or(true, |i| i < c);
                if !valid && self.valid_only {
                    self.ctx.class("skipped-invalid");
                    return Ok(());
                }
                let t = &mut self.t;
                let held = &mut self.held;
                let res = catch(move || match at {
                    Some(i) => {
                        let mut d = t.remove_col(i);
                        Some(Self::run_drain(&mut d, script, r, held))
                    }
                    None => t.pop_col().map(|mut d| Self::run_drain(&mut d, script, r, held)),
                });
                if valid && (at.is_some() || c > 0) {
                    self.m.remove_col(at.unwrap_or(c.saturating_sub(1)));
                    self.structural_axes.1 = true;
                    if let Ok(Some((f, b))) = &res {
                        if f + b > 0 && f + b < r {
                            self.drain_partial = true;
                        }
                    }
                    if self.m.is_empty() {
                        self.went_empty = true;
                    }
                }
                self.note_result(valid, res.is_err());
            }
            Op::Clear => {
                let t = &mut self.t;
                let res = catch(move || t.clear());
                self.m = Model::new();
                self.went_empty = true;
                self.note_result(true, res.is_err());
            }
            Op::SwapDims => {
                self.t.swap_dimensions();
                self.m.swap_dims();
                self.note_result(true, false);
            }
            Op::Reserve(n) => {
                self.t.reserve(*n as usize);
                let _ = self.t.capacity();
            }
            Op::ReserveExact(n) => {
                self.t.reserve_exact(*n as usize);
            }
            Op::Shrink => {
                self.t.shrink_to_fit();
            }
            Op::Whole(ip) => {
                let (valid, pan, skipped) = Self::inplace(&mut self.t, &mut self.m, ip, self.valid_only, shape_mode)?;
                if skipped {
                    self.ctx.class("skipped-invalid");
                    return Ok(());
                }
                self.note_result(valid, pan.is_some());
            }
            Op::InView { win, op: ip } => {
                let (s, e) = win.resolve(c, r);
                let valid_win = win_is_valid(s, e, c, r);
                if !valid_win {
                    if self.valid_only {
                        self.ctx.class("skipped-invalid");
                        return Ok(());
                    }
                    let t = &mut self.t;
                    let res = catch(move || {
                        let _ = t.view_mut(s, e);
                    });
                    self.note_result(false, res.is_err());
                } else {
                    let mut wm = self.m.window(s, e);
                    // far-edge empty windows are C03's subject; keep this engine on the op itself
                    let t = &mut self.t;
                    let vo = self.valid_only;
                    let r2 = catch(move || {
                        let mut v = t.view_mut(s, e);
                        let out = Self::inplace(&mut v, &mut wm, ip, vo, shape_mode);
                        (out, wm)
                    });
                    match r2 {
                        Ok((out, wm)) => {
                            let (valid, pan, skipped) = out?;
                            if skipped {
                                self.ctx.class("skipped-invalid");
                                return Ok(());
                            }
                            if !wm.is_empty() {
                                self.m.put_window(s, &wm);
                            }
                            self.ctx.class("op-in-window");
                            self.note_result(valid, pan.is_some());
                        }
                        Err(_msg) => {
                            // creating a *valid* window panicked (C03's business); nothing changed
                            self.any_panic = true;
                            self.ctx.class("valid-window-panicked");
                        }
                    }
                }
            }
            Op::SetViaData(i, k) => {
                let n = self.t.data().len();
                let idx = i.resolve(self.m.len());
                if idx < n && idx < self.m.len() {
                    let e = E::mint(*k % 4);
                    let id = e.id();
                    self.t.data_mut()[idx] = e;
                    if c > 0 {
                        self.m.set(idx % c, idx / c, id);
                    }
                }
            }
            Op::Rebuild(ctor) => {
                if let Some((t, m)) = self.build(ctor, keyctr)? {
                    self.t = t;
                    self.m = m;
                    if self.m.is_empty() {
                        self.went_empty = true;
                    }
                    self.note_result(true, false);
                } else {
                    self.note_result(false, true);
                }
            }
            Op::IntoVecBack => {
                let t = std::mem::take(&mut self.t);
                let v: Vec<E> = t.into();
                if shape_mode && !E::ZST {
                    let ids: Vec<u64> = v.iter().map(|e| e.id()).collect();
                    ensure!(ids == self.m.flat(), "into-vec", "Vec::from(array) gave ids {:?}, model {:?}", ids, self.m.flat());
                }
                if v.len() == c * r {
                    self.t = TooDee::from_vec(c, r, v);
                } else {
                    self.t = TooDee::default();
                    self.m = Model::new();
                    self.diverged = !shape_mode;
                    if shape_mode {
                        fail!("into-vec-len", "Vec::from(array) has a length different from {}x{}", c, r);
                    }
                }
                self.ctx.class("conversion");
            }
            Op::IntoBoxBack => {
                let t = std::mem::take(&mut self.t);
                let b: Box<[E]> = t.into();
                if shape_mode && !E::ZST {
                    let ids: Vec<u64> = b.iter().map(|e| e.id()).collect();
                    ensure!(ids == self.m.flat(), "into-box", "Box::from(array) gave ids {:?}, model {:?}", ids, self.m.flat());
                }
                if b.len() == c * r {
                    self.t = TooDee::from_box(c, r, b);
                } else {
                    self.t = TooDee::default();
                    self.m = Model::new();
                    if shape_mode {
                        fail!("into-box-len", "Box::from(array) has a length different from {}x{}", c, r);
                    }
                    self.diverged = true;
                }
                self.ctx.class("conversion");
            }
            Op::IntoIterTake(f, b) => {
                let t = std::mem::take(&mut self.t);
                let mut it = t.into_iter();
                let flat = self.m.flat();
                let mut want: VecDeque<u64> = flat.into();
                for _ in 0..*f {
                    let (g, w) = (it.next(), want.pop_front());
                    if shape_mode && !E::ZST {
                        ensure!(g.as_ref().map(|e| e.id()) == w, "into-iter-order", "into_iter().next() gave {:?}, model {:?}", g.as_ref().map(|e| e.id()), w);
                    }
                    if let Some(e) = g {
                        self.held.push(e);
                    }
                }
                for _ in 0..*b {
                    let (g, w) = (it.next_back(), want.pop_back());
                    if shape_mode && !E::ZST {
                        ensure!(g.as_ref().map(|e| e.id()) == w, "into-iter-order", "into_iter().next_back() gave {:?}, model {:?}", g.as_ref().map(|e| e.id()), w);
                    }
                    if let Some(e) = g {
                        self.held.push(e);
                    }
                }
                if shape_mode {
                    ensure!(it.len() == want.len(), "into-iter-len", "into_iter() has {} items left, model {}", it.len(), want.len());
                }
                drop(it);
                self.m = Model::new();
                self.went_empty = true;
                self.ctx.class("conversion");
            }
            Op::CloneSelf => {
                let keys: Vec<u8> = self.t.data().iter().map(|e| e.key()).collect();
                let old: HashSet<u64> = self.m.flat().into_iter().collect();
                let n = self.t.clone();
                if shape_mode {
                    ensure!(n.size() == self.m.size() && n.data().len() == keys.len(), "clone-size", "clone has size {:?} len {}, original {:?}", n.size(), n.data().len(), self.m.size());
                    if !E::ZST {
                        for (e, k) in n.data().iter().zip(&keys) {
                            ensure!(e.key() == *k && (!E::TRACKED || !old.contains(&e.id())), "clone-cells", "clone cell id {} key {} (expected key {}, a new element)", e.id(), e.key(), k);
                        }
                    }
                }
                if n.num_cols().checked_mul(n.num_rows()) == Some(n.data().len()) && n.size() == self.m.size() {
                    self.m = Model::from_flat(n.num_cols(), n.num_rows(), &ids_of(&n));
                }
                self.t = n;
                self.ctx.class("conversion");
            }
            Op::CloneFromOther(dc, dr) => {
                let (oc, or) = ((c as i64 + (*dc).clamp(-2, 2) as i64).max(0) as usize, (r as i64 + (*dr).clamp(-2, 2) as i64).max(0) as usize);
                let (oc, or) = if oc == 0 || or == 0 { (0, 0) } else { (oc, or) };
                let (v, other_ids) = mint_line::<E>(oc * or, keyctr);
                let keys: Vec<u8> = v.iter().map(|e| e.key()).collect();
                let other = TooDee::from_vec(oc, or, v);
                let old: HashSet<u64> = self.m.flat().into_iter().chain(other_ids.iter().copied()).collect();
                self.t.clone_from(&other);
                let n = &self.t;
                if shape_mode {
                    ensure!(n.size() == (oc, or) && n.data().len() == keys.len(), "clone_from-size", "clone_from of a {}x{} array gave size {:?} with {} cells", oc, or, n.size(), n.data().len());
                    if !E::ZST {
                        for (e, k) in n.data().iter().zip(&keys) {
                            ensure!(e.key() == *k && (!E::TRACKED || !old.contains(&e.id())), "clone_from-cells", "clone_from cell id {} key {} (expected key {}, a new element)", e.id(), e.key(), k);
                        }
                        ensure!(other.data().iter().map(|e| e.id()).collect::<Vec<_>>() == other_ids, "clone_from-source-changed", "clone_from changed its source");
                    }
                }
                if n.num_cols().checked_mul(n.num_rows()) == Some(n.data().len()) && n.size() == (oc, or) {
                    self.m = Model::from_flat(oc, or, &ids_of(n));
                } else {
                    self.diverged = !shape_mode;
                    self.m = Model::new();
                }
                if self.m.is_empty() {
                    self.went_empty = true;
                }
                drop(other);
                self.ctx.class("conversion");
            }
            Op::FromViewSelf(win) | Op::FromViewMutSelf(win) => {
                let (s, e) = win.resolve(c, r);
                let valid = win_is_valid(s, e, c, r);
                if !valid && self.valid_only {
                    self.ctx.class("skipped-invalid");
                    return Ok(());
                }
                let wm = if valid { self.m.window(s, e) } else { Model::new() };
                let t = &mut self.t;
                let is_mut = matches!(op, Op::FromViewMutSelf(_));
                let res = catch(move || {
                    if is_mut {
                        let keys: Vec<u8> = t.view_mut(s, e).cells().map(|x| x.key()).collect();
                        (TooDee::from(t.view_mut(s, e)), keys)
                    } else {
                        let keys: Vec<u8> = t.view(s, e).cells().map(|x| x.key()).collect();
                        (TooDee::from(t.view(s, e)), keys)
                    }
                });
                match res {
                    Ok((n, keys)) => {
                        if shape_mode && valid {
                            ensure!(n.size() == wm.size() && n.data().len() == wm.len(), "from-view-size", "From<view {:?}..{:?}> has size {:?} len {}, model {:?}", s, e, n.size(), n.data().len(), wm.size());
                            for (x, k) in n.data().iter().zip(&keys) {
                                ensure!(x.key() == *k, "from-view-cells", "From<view> cell key {} expected {}", x.key(), k);
                            }
                        }
                        if n.num_cols().checked_mul(n.num_rows()) == Some(n.data().len()) && (n.num_cols() == 0) == (n.num_rows() == 0) {
                            self.m = Model::from_flat(n.num_cols(), n.num_rows(), &ids_of(&n));
                        } else {
                            self.m = Model::new();
                        }
                        self.t = n;
                        if self.m.is_empty() {
                            self.went_empty = true;
                        }
                        self.ctx.class("conversion");
                        self.note_result(true, false);
                    }
                    Err(_) => {
                        // an invalid window (or C03's far-edge defect): array untouched
                        self.note_result(false, true);
                    }
                }
            }
            Op::CloneFromSlice(d) | Op::CloneFromToodee(d) => {
                let n = (self.m.len() as i64 + *d as i64).max(0) as usize;
                let valid = n == self.m.len();
                if !valid && self.valid_only {
                    self.ctx.class("skipped-invalid");
                    return Ok(());
                }
                let (v, _) = mint_line::<E>(n, keyctr);
                let keys: Vec<u8> = v.iter().map(|e| e.key()).collect();
                let old: HashSet<u64> = self.m.flat().into_iter().collect();
                let t = &mut self.t;
                let to_toodee = matches!(op, Op::CloneFromToodee(_));
                let res = catch(move || {
                    if to_toodee {
                        // a source of the same area; same shape only when valid
                        let src = if valid { TooDee::from_vec(c, r, v) } else if n == 0 { TooDee::default() } else { TooDee::from_vec(n, 1, v) };
                        t.clone_from_toodee(&src);
                    } else {
                        t.clone_from_slice(&v);
                    }
                });
                if valid && res.is_ok() && !E::ZST {
                    for (i, e) in self.t.data().iter().enumerate() {
                        if shape_mode {
                            ensure!(i < keys.len() && e.key() == keys[i] && (!E::TRACKED || !old.contains(&e.id())), "clone-from-cells", "{:?}: cell {} has id {} key {}", op, i, e.id(), e.key());
                        }
                    }
                    if self.t.data().len() == self.m.len() {
                        self.m = Model::from_flat(c, r, &ids_of(&self.t));
                    }
                }
                self.ctx.class("conversion");
                self.note_result(valid, res.is_err());
            }
            Op::DropHeld => {
                self.held.clear();
            }
            Op::LeakDrain { row, at, front, back } => {
                let dim = if *row { r } else { c };
                if shape_mode || dim == 0 {
                    return Ok(());
                }
                let i = at.resolve(dim).min(dim - 1);
                let t = &mut self.t;
                let held = &mut self.held;
                let (row, front, back) = (*row, *front % 4, *back % 4);
                let res = catch(move || {
                    fn take<E, D: Iterator<Item = E> + DoubleEndedIterator>(d: &mut D, f: u8, b: u8, held: &mut Vec<E>) {
                        for _ in 0..f {
                            if let Some(e) = d.next() {
                                held.push(e);
                            }
                        }
                        for _ in 0..b {
                            if let Some(e) = d.next_back() {
                                held.push(e);
                            }
                        }
                    }
                    if row {
                        let mut d = t.remove_row(i);
                        take(&mut d, front, back, held);
                        std::mem::forget(d);
                    } else {
                        let mut d = t.remove_col(i);
                        take(&mut d, front, back, held);
                        std::mem::forget(d);
                    }
                });
                let _ = res;
                self.any_panic = true; // elements may have been leaked: the no-leak clause no longer applies
                self.ctx.class("drain-leaked");
                let t = &self.t;
                let (c2, r2) = (t.num_cols(), t.num_rows());
                if c2.checked_mul(r2) == Some(t.data().len()) && (c2 == 0) == (r2 == 0) {
                    self.m = Model::from_flat(c2, r2, &ids_of(t));
                } else {
                    self.diverged = true;
                }
            }
            Op::Faulted { .. } => unreachable!(),
        }
        Ok(())
    }
}

fn op_name(op: &Op) -> &'static str {
    match op {
        Op::InsertRow { .. } => "insert_row",
        Op::PushRow { .. } => "push_row",
        Op::InsertCol { .. } => "insert_col",
        Op::PushCol { .. } => "push_col",
        Op::InsertLying { .. } => "insert(lying iterator)",
        Op::RemoveRow { .. } => "remove_row",
        Op::PopRow { .. } => "pop_row",
        Op::RemoveCol { .. } => "remove_col",
        Op::PopCol { .. } => "pop_col",
        Op::Clear => "clear",
        Op::SwapDims => "swap_dimensions",
        Op::Reserve(_) => "reserve",
        Op::ReserveExact(_) => "reserve_exact",
        Op::Shrink => "shrink_to_fit",
        Op::Whole(ip) | Op::InView { op: ip, .. } => match ip {
            InPlace::Fill(_) => "fill",
            InPlace::SetCell(..) => "index_mut(coord)",
            InPlace::SetViaRow(..) => "index_mut(row)",
            InPlace::Swap(..) => "swap",
            InPlace::SwapRows(..) => "swap_rows",
            InPlace::SwapCols(..) => "swap_cols",
            InPlace::Translate(..) => "translate_with_wrap",
            InPlace::FlipRows => "flip_rows",
            InPlace::FlipCols => "flip_cols",
            InPlace::SortRow { .. } => "sort_*_row",
            InPlace::SortCol { .. } => "sort_*_col",
        },
        Op::SetViaData(..) => "data_mut",
        Op::Rebuild(_) => "constructor",
        Op::IntoVecBack => "into_vec",
        Op::IntoBoxBack => "into_box",
        Op::IntoIterTake(..) => "into_iter",
        Op::CloneSelf => "clone",
        Op::CloneFromOther(..) => "clone_from",
        Op::FromViewSelf(_) => "from_view",
        Op::FromViewMutSelf(_) => "from_view_mut",
        Op::CloneFromSlice(_) => "clone_from_slice",
        Op::CloneFromToodee(_) => "clone_from_toodee",
        Op::DropHeld => "drop_held",
        Op::LeakDrain { .. } => "leaked-drain",
        Op::Faulted { op, .. } => op_name(op),
    }
}

fn run<E: Elem + Clone + Default + Ord>(h: &History, mode: Mode, ctx: &mut Ctx) -> Verdict {
    let mut keyctr = 7u8;
    let mut eng: Eng<'_, E> = Eng {
        t: TooDee::default(),
        m: Model::new(),
        held: Vec::new(),
        mode,
        valid_only: h.valid_only,
        any_panic: false,
        ctx,
        structural_axes: (false, false),
        went_empty: false,
        regrew: false,
        rejected_then_ok: 0,
        drain_partial: false,
        insert_nonempty: false,
        diverged: false,
    };
    if let Some((t, m)) = eng.build(&h.ctor, &mut keyctr)? {
        eng.t = t;
        eng.m = m;
    }
    let tag = |e: Failure, at: &str| Failure { sig: format!("{}/{}", at, e.sig), msg: e.msg };
    eng.check("constructor").map_err(|e| tag(e, "constructor"))?;
    for (i, op) in h.ops.iter().enumerate() {
        if eng.diverged {
            eng.ctx.class("diverged-from-model(left to C01)");
            break;
        }
        let name = op_name(op);
        let was_rejected = eng.rejected_then_ok == 1;
        eng.apply(op, &mut keyctr).map_err(|e| tag(e, name))?;
        if was_rejected && eng.rejected_then_ok == 1 {
            eng.rejected_then_ok = 2;
        }
        let lbl = format!("step {} ({})", i, name);
        eng.check(&lbl).map_err(|e| tag(e, name))?;
    }
    let any_panic = eng.any_panic;
    let diverged = eng.diverged;
    let nt = match mode {
        Mode::Shape => (eng.structural_axes.0 && eng.structural_axes.1) || eng.regrew || eng.rejected_then_ok == 2 || eng.drain_partial,
        Mode::Drops => eng.insert_nonempty || eng.drain_partial,
    };
    if eng.structural_axes.0 && eng.structural_axes.1 {
        eng.ctx.class("interleaves-axes");
    }
    if eng.went_empty {
        eng.ctx.class("passes-through-empty");
    }
    if eng.regrew {
        eng.ctx.class("regrows-from-empty");
    }
    if eng.drain_partial {
        eng.ctx.class("drain-partial");
    }
    if any_panic {
        eng.ctx.class("has-rejected-call");
    } else {
        eng.ctx.class("panic-free-history");
    }
    eng.ctx.class(E::NAME);
    // final drop
    let Eng { t, held, ctx, .. } = eng;
    drop(t);
    drop(held);
    if mode == Mode::Drops && !diverged {
        let dd = elem::double_drops();
        ensure!(dd.is_empty(), "final/double-drop", "elements dropped twice by the end of the history: {:?}", dd);
        if !any_panic {
            if E::ZST {
                let (cr, dr) = elem::zs_counts();
                ensure!(cr == dr, "final/zst-balance", "{} zero-sized values created, {} dropped by the end of a panic-free history", cr, dr);
            } else if E::TRACKED {
                ensure!(elem::live_count() == 0, "final/leak", "elements never dropped by the end of a panic-free, leak-free history: {:?}", elem::live_ids());
            }
            if nt {
                ctx.nt();
            }
        }
    } else if mode == Mode::Shape && nt {
        ctx.nt();
    }
    Ok(())
}


/// Bound a history decoded from raw fuzzer bytes (dimensions 0..8, at most 48 operations).
pub fn sanitize(h: &mut History) -> bool {
    fn dim(d: &mut Dim) {
        if let Dim::S(k) = d {
            *k %= 9;
        }
    }
    fn ctor(c: &mut Ctor) {
        match c {
            Ctor::New(a, b) | Ctor::Init(a, b) => {
                dim(a);
                dim(b);
            }
            Ctor::FromVec { c, r, delta, .. } => {
                dim(c);
                dim(r);
                *delta = (*delta).clamp(-8, 8);
            }
            Ctor::FromBox { c, r, delta } => {
                dim(c);
                dim(r);
                *delta = (*delta).clamp(-8, 8);
            }
            _ => {}
        }
    }
    ctor(&mut h.ctor);
    for op in h.ops.iter_mut() {
        let op = match op {
            Op::Faulted { op: inner, .. } => &mut **inner,
            other => other,
        };
        match op {
            Op::Rebuild(c) => ctor(c),
            Op::RemoveRow { script, .. } | Op::RemoveCol { script, .. } | Op::PopRow { script } | Op::PopCol { script } => script.truncate(12),
            _ => {}
        }
    }
    true
}

pub fn execute(h: &History, mode: Mode, ctx: &mut Ctx) -> Verdict {
    match h.elem {
        ElemKind::U32 => run::<u32>(h, mode, ctx),
        ElemKind::Tr => run::<Tr>(h, mode, ctx),
        ElemKind::Bx => run::<Bx>(h, mode, ctx),
        ElemKind::Zs => run::<Zs>(h, mode, ctx),
        ElemKind::U128 => run::<u128>(h, mode, ctx),
        ElemKind::B3 => run::<crate::elem::B3>(h, mode, ctx),
        ElemKind::Nd => run::<crate::elem::Nd>(h, mode, ctx),
        ElemKind::W40 => run::<crate::elem::W40>(h, mode, ctx),
    }
}

// ---------------------------------------------------------------------------------------------
// strategies

pub fn len_spec() -> impl Strategy<Value = LenSpec> {
    prop_oneof![
        82 => (0u8..6).prop_map(LenSpec::Match),
        6 => Just(LenSpec::Off(1)),
        6 => Just(LenSpec::Off(-1)),
        2 => Just(LenSpec::Off(3)),
        4 => (0u8..8).prop_map(LenSpec::Exact),
    ]
}
pub fn src() -> impl Strategy<Value = Src> {
    prop_oneof![Just(Src::Vec), Just(Src::Map), Just(Src::Deque), Just(Src::RevVec)]
}
pub fn dstep() -> impl Strategy<Value = DStep> {
    prop_oneof![
        8 => Just(DStep::Next),
        8 => Just(DStep::NextBack),
        2 => Just(DStep::Len),
        2 => Just(DStep::SizeHint),
        3 => (0u8..4).prop_map(DStep::Nth),
        3 => (0u8..4).prop_map(DStep::NthBack),
        1 => Just(DStep::CountRest),
        1 => Just(DStep::LastRest),
        1 => Just(DStep::RFoldRest),
    ]
}
pub fn drain_script() -> impl Strategy<Value = Vec<DStep>> {
    prop::collection::vec(dstep(), 0..9)
}
pub fn ctor(max: u8) -> impl Strategy<Value = Ctor> {
    prop_oneof![
        1 => Just(Ctor::Default),
        1 => (0u8..40).prop_map(Ctor::WithCapacity),
        3 => dim_pair(max).prop_map(|(c, r)| Ctor::New(c, r)),
        3 => dim_pair(max).prop_map(|(c, r)| Ctor::Init(c, r)),
        5 => (dim_pair(max), prop_oneof![8 => Just(0i8), 1 => Just(1i8), 1 => Just(-1i8), 1 => Just(7i8)], 0u8..4).prop_map(|((c, r), delta, spare)| Ctor::FromVec { c, r, delta, spare }),
        2 => (dim_pair(max), prop_oneof![8 => Just(0i8), 1 => Just(1i8), 1 => Just(-1i8)]).prop_map(|((c, r), delta)| Ctor::FromBox { c, r, delta }),
    ]
}
pub fn inplace() -> impl Strategy<Value = InPlace> {
    prop_oneof![
        2 => (0u8..4).prop_map(InPlace::Fill),
        2 => (ix_elem(), ix_elem(), 0u8..4).prop_map(|(c, r, k)| InPlace::SetCell(c, r, k)),
        1 => (ix_elem(), ix_elem(), 0u8..4).prop_map(|(c, r, k)| InPlace::SetViaRow(c, r, k)),
        2 => (ix_elem(), ix_elem(), ix_elem(), ix_elem()).prop_map(|(a, b, c, d)| InPlace::Swap(a, b, c, d)),
        2 => (ix_elem(), ix_elem()).prop_map(|(a, b)| InPlace::SwapRows(a, b)),
        2 => (ix_elem(), ix_elem()).prop_map(|(a, b)| InPlace::SwapCols(a, b)),
        3 => (ix_bound(), ix_bound()).prop_map(|(a, b)| InPlace::Translate(a, b)),
        1 => Just(InPlace::FlipRows),
        1 => Just(InPlace::FlipCols),
        2 => (ix_elem(), 0u8..6).prop_map(|(line, form)| InPlace::SortRow { line, form }),
        2 => (ix_elem(), 0u8..6).prop_map(|(line, form)| InPlace::SortCol { line, form }),
    ]
}
pub fn op() -> impl Strategy<Value = Op> {
    prop_oneof![
        8 => (ix_bound(), len_spec(), src()).prop_map(|(at, len, src)| Op::InsertRow { at, len, src }),
        5 => (len_spec(), src()).prop_map(|(len, src)| Op::PushRow { len, src }),
        8 => (ix_bound(), len_spec(), src()).prop_map(|(at, len, src)| Op::InsertCol { at, len, src }),
        5 => (len_spec(), src()).prop_map(|(len, src)| Op::PushCol { len, src }),
        2 => (any::<bool>(), any::<bool>(), ix_bound(), prop_oneof![Just(-1i8), Just(1i8), Just(2i8), Just(0i8)], prop::bool::weighted(0.3)).prop_map(|(row, push, at, yield_delta, huge)| Op::InsertLying { row, push, at, yield_delta, huge }),
        6 => (ix_elem(), drain_script()).prop_map(|(at, script)| Op::RemoveRow { at, script }),
        3 => drain_script().prop_map(|script| Op::PopRow { script }),
        6 => (ix_elem(), drain_script()).prop_map(|(at, script)| Op::RemoveCol { at, script }),
        3 => drain_script().prop_map(|script| Op::PopCol { script }),
        1 => Just(Op::Clear),
        2 => Just(Op::SwapDims),
        1 => (0u8..20).prop_map(Op::Reserve),
        1 => (0u8..20).prop_map(Op::ReserveExact),
        3 => Just(Op::Shrink),
        12 => inplace().prop_map(Op::Whole),
        6 => (win_any(), inplace()).prop_map(|(win, op)| Op::InView { win, op }),
        1 => (ix_elem(), 0u8..4).prop_map(|(i, k)| Op::SetViaData(i, k)),
        3 => ctor(5).prop_map(Op::Rebuild),
        1 => Just(Op::IntoVecBack),
        1 => Just(Op::IntoBoxBack),
        1 => (0u8..6, 0u8..6).prop_map(|(f, b)| Op::IntoIterTake(f, b)),
        1 => Just(Op::CloneSelf),
        1 => (-2i8..3, -2i8..3).prop_map(|(a, b)| Op::CloneFromOther(a, b)),
        1 => win_any().prop_map(Op::FromViewSelf),
        1 => win_any().prop_map(Op::FromViewMutSelf),
        1 => prop_oneof![6 => Just(0i8), 1 => Just(1i8), 1 => Just(-1i8)].prop_map(Op::CloneFromSlice),
        1 => prop_oneof![6 => Just(0i8), 1 => Just(1i8), 1 => Just(-1i8)].prop_map(Op::CloneFromToodee),
        2 => Just(Op::DropHeld),
    ]
}

pub fn history(elems: &'static [(u32, ElemKind)], valid_only_p: f64, max_ops: usize, fault_p: f64) -> impl Strategy<Value = History> {
    let elem = proptest::sample::select(elems.iter().flat_map(|(w, k)| std::iter::repeat(*k).take(*w as usize)).collect::<Vec<_>>());
    let leak = (any::<bool>(), ix_valid(), 0u8..4, 0u8..4).prop_map(|(row, at, front, back)| Op::LeakDrain { row, at, front, back });
    let one = (op(), prop::bool::weighted(fault_p), 0u8..12, prop::bool::weighted(fault_p / 2.0), leak).prop_map(|(op, f, k, l, leak)| if f { Op::Faulted { op: Box::new(op), k } } else if l { leak } else { op });
    (elem, prop::bool::weighted(valid_only_p), prop_oneof![30 => ctor(6), 1 => ctor(40)], prop::collection::vec(one, 0..max_ops)).prop_map(|(elem, valid_only, ctor, ops)| History { elem, valid_only, ctor, ops, giant: None })
}
