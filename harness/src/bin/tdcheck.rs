use std::path::PathBuf;
use tdverif::props::*;
use tdverif::runner::*;

fn arg(args: &[String], name: &str) -> Option<String> {
    args.iter().position(|a| a == name).and_then(|i| args.get(i + 1).cloned())
}

fn dispatch<P: Prop>(cmd: &str, args: &[String]) -> i32 {
    let tier = match arg(args, "--tier").as_deref() {
        Some("thorough") => Tier::Thorough,
        _ => Tier::Quick,
    };
    let seed: u64 = arg(args, "--seed").and_then(|s| s.parse().ok()).unwrap_or(0);
    let known = Known::load(&PathBuf::from(arg(args, "--known").unwrap_or_else(|| "/verif/known_findings.txt".into())));
    match cmd {
        "worker" => {
            let opts = WorkerOpts {
                tier,
                seed,
                threads: arg(args, "--threads").and_then(|s| s.parse().ok()).unwrap_or(4),
                out_dir: PathBuf::from(arg(args, "--out").expect("--out")),
                known,
                regress_dir: PathBuf::from(arg(args, "--regress").unwrap_or_else(|| "/verif/regressions".into())),
                mode: arg(args, "--mode").unwrap_or_else(|| "all".into()),
                scale: arg(args, "--scale").and_then(|s| s.parse().ok()).unwrap_or(1.0),
                max_failures: arg(args, "--max-failures").and_then(|s| s.parse().ok()).unwrap_or(4),
            };
            let n = run_worker::<P>(opts);
            if n > 0 { 1 } else { 0 }
        }
        "replay" => {
            let path = PathBuf::from(arg(args, "--file").expect("--file"));
            let tolerate = args.iter().any(|a| a == "--tolerate-known");
            match replay_one::<P>(&path, &known, tolerate) {
                Ok(()) => {
                    println!("REPLAY-PASS property={} substrate={} file={}", P::ID, substrate(), path.display());
                    0
                }
                Err(f) => {
                    println!("REPLAY-FAIL property={} substrate={} sig={} :: {}", P::ID, substrate(), f.sig, f.msg);
                    1
                }
            }
        }
        "fuzzone" => {
            // run one libFuzzer-style input (bytes = the strategy's random stream) natively
            let bytes = std::fs::read(arg(args, "--file").expect("--file")).expect("read input");
            let mut st: FuzzState<P> = FuzzState::new();
            match st.decode(&bytes) {
                Some(c) => println!("DECODED {}", serde_json::to_string(&c).unwrap()),
                None => println!("DECODE-REJECTED"),
            }
            st.one(&bytes);
            0
        }
        "gen" => {
            let n: usize = arg(args, "--n").and_then(|s| s.parse().ok()).unwrap_or(100);
            gen_batch::<P>(tier, seed, n, &PathBuf::from(arg(args, "--file").expect("--file")));
            0
        }
        "batch" => {
            let shard: usize = arg(args, "--shard").and_then(|s| s.parse().ok()).unwrap_or(0);
            let nshards: usize = arg(args, "--nshards").and_then(|s| s.parse().ok()).unwrap_or(1);
            let n = run_batch::<P>(&PathBuf::from(arg(args, "--file").expect("--file")), shard, nshards, &known);
            if n > 0 { 1 } else { 0 }
        }
        _ => {
            eprintln!("unknown command {}", cmd);
            2
        }
    }
}

fn main() {
    let args: Vec<String> = std::env::args().collect();
    if args.len() < 3 {
        eprintln!("usage: tdcheck <worker|replay|gen|batch> <property> [options]");
        std::process::exit(2);
    }
    install_quiet_hook();
    let cmd = args[1].as_str();
    let code = match args[2].as_str() {
        "C01" => dispatch::<c01::C01>(cmd, &args),
        "C02" => dispatch::<access::C02>(cmd, &args),
        "C03" => dispatch::<access::C03>(cmd, &args),
        "C04" => dispatch::<grid::C04>(cmd, &args),
        "C05" => dispatch::<c01::C05>(cmd, &args),
        "C06" => dispatch::<structural::C06>(cmd, &args),
        "C07" => dispatch::<structural::C07>(cmd, &args),
        "C08" => dispatch::<iters::C08>(cmd, &args),
        "C09" => dispatch::<iters::C09>(cmd, &args),
        "C10" => dispatch::<iters::C10>(cmd, &args),
        "C11" => dispatch::<fault::C11>(cmd, &args),
        "C12" => dispatch::<fault::C12>(cmd, &args),
        "C13" => dispatch::<grid::C13>(cmd, &args),
        "C14" => dispatch::<grid::C14>(cmd, &args),
        "C15" => dispatch::<grid::C15>(cmd, &args),
        "C16" => dispatch::<grid::C16>(cmd, &args),
        "C17" => dispatch::<grid::C17>(cmd, &args),
        "C18" => dispatch::<serdeprops::C18>(cmd, &args),
        "C19" => dispatch::<serdeprops::C19>(cmd, &args),
        "C20" => dispatch::<ctor::C20>(cmd, &args),
        other => {
            eprintln!("unknown property {}", other);
            2
        }
    };
    std::process::exit(code);
}
