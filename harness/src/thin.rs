//! A "third-party" implementor of `TooDeeOps` / `TooDeeOpsMut` that provides only the
//! *required* methods (by delegation) and inherits every default method: `swap`, `swap_rows`,
//! `swap_cols`, `fill`, `row_pair_mut`, `cells*`, all `CopyOps` defaults and the blanket
//! `SortOps` / `TranslateOps`.  The default `swap_rows` is dead code for both shipped types.

use std::marker::PhantomData;
use std::ops::{Index, IndexMut};
use toodee::*;

pub struct Thin<'a, T, X: TooDeeOpsMut<T>>(pub &'a mut X, PhantomData<T>);

impl<'a, T, X: TooDeeOpsMut<T>> Thin<'a, T, X> {
    pub fn new(x: &'a mut X) -> Self {
        Thin(x, PhantomData)
    }
}

impl<'a, T, X: TooDeeOpsMut<T>> Index<usize> for Thin<'a, T, X> {
    type Output = [T];
    fn index(&self, row: usize) -> &[T] {
        &self.0[row]
    }
}
impl<'a, T, X: TooDeeOpsMut<T>> Index<Coordinate> for Thin<'a, T, X> {
    type Output = T;
    fn index(&self, c: Coordinate) -> &T {
        &self.0[c]
    }
}
impl<'a, T, X: TooDeeOpsMut<T>> IndexMut<usize> for Thin<'a, T, X> {
    fn index_mut(&mut self, row: usize) -> &mut [T] {
        &mut self.0[row]
    }
}
impl<'a, T, X: TooDeeOpsMut<T>> IndexMut<Coordinate> for Thin<'a, T, X> {
    fn index_mut(&mut self, c: Coordinate) -> &mut T {
        &mut self.0[c]
    }
}

impl<'a, T, X: TooDeeOpsMut<T>> TooDeeOps<T> for Thin<'a, T, X> {
    fn num_cols(&self) -> usize {
        self.0.num_cols()
    }
    fn num_rows(&self) -> usize {
        self.0.num_rows()
    }
    fn view(&self, start: Coordinate, end: Coordinate) -> TooDeeView<'_, T> {
        self.0.view(start, end)
    }
    fn rows(&self) -> Rows<'_, T> {
        self.0.rows()
    }
    fn col(&self, col: usize) -> Col<'_, T> {
        self.0.col(col)
    }
    unsafe fn get_unchecked_row(&self, row: usize) -> &[T] {
        self.0.get_unchecked_row(row)
    }
    unsafe fn get_unchecked(&self, coord: Coordinate) -> &T {
        self.0.get_unchecked(coord)
    }
}

impl<'a, T, X: TooDeeOpsMut<T>> TooDeeOpsMut<T> for Thin<'a, T, X> {
    fn view_mut(&mut self, start: Coordinate, end: Coordinate) -> TooDeeViewMut<'_, T> {
        self.0.view_mut(start, end)
    }
    fn rows_mut(&mut self) -> RowsMut<'_, T> {
        self.0.rows_mut()
    }
    fn col_mut(&mut self, col: usize) -> ColMut<'_, T> {
        self.0.col_mut(col)
    }
    unsafe fn get_unchecked_row_mut(&mut self, row: usize) -> &mut [T] {
        self.0.get_unchecked_row_mut(row)
    }
    unsafe fn get_unchecked_mut(&mut self, coord: Coordinate) -> &mut T {
        self.0.get_unchecked_mut(coord)
    }
}

impl<'a, T, X: TooDeeOpsMut<T>> CopyOps<T> for Thin<'a, T, X> {}
