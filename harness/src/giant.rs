//! Arrays and views of the zero-sized type `()` whose dimensions are astronomically large
//! (cell counts next to `usize::MAX`, beyond `isize::MAX`, products of two 32-bit numbers).
//! Such arrays are legal -- a `Vec<()>` never allocates -- and cost nothing to build, and they
//! are the only inputs on which an unchecked `a + b`, `n * stride` or a byte-size assumption in
//! the index arithmetic becomes visible.  Every operation used on them is O(1) or O(small
//! dimension) on the tree under test (no drop glue, no per-cell loops); the callers keep to that.

use toodee::*;

pub const M: usize = usize::MAX;

/// (cols, rows); every product fits in usize
pub const SHAPES: [(usize, usize); 20] = [
    (3, M / 3),                     // exactly usize::MAX cells, tall
    (M / 3, 3),                     // exactly usize::MAX cells, wide
    (5, M / 5),
    (M / 5, 5),
    (1, M),
    (M, 1),
    (2, M / 2),                     // usize::MAX - 1 cells
    (M / 2, 2),
    (7, M / 7),                     // usize::MAX - 1 cells
    (M / 7, 7),
    (1 << 32, (1 << 32) - 1),       // 2^64 - 2^32
    ((1 << 32) - 1, 1 << 32),
    (3_000_000_011, 4_000_000_007), // > 2^63 cells, both dimensions prime
    (1 << 31, 1 << 32),             // exactly 2^63 cells
    (1 << 32, 1 << 31),
    (65_535, M / 65_535),
    (M / 255, 255),
    (70_000, 1),                    // merely "more than 65535"
    (1, 70_000),
    (4, (1 << 62) - 1),             // 2^64 - 4
];

pub fn shape(k: u8) -> (usize, usize) {
    SHAPES[(k as usize).wrapping_sub(1) % SHAPES.len()]
}

pub static UNITS: [(); usize::MAX] = [(); usize::MAX];

pub fn owned(c: usize, r: usize) -> TooDee<()> {
    TooDee::from_vec(c, r, vec![(); c * r])
}

/// Interesting coordinates along a dimension of length `dim` whose index is multiplied by
/// `mul` (a stride) somewhere: both ends, the first invalid values, and the values whose
/// product with `mul` or `mul + 1` wraps around 2^64 back into range.
pub fn coords(dim: usize, mul: usize) -> Vec<u64> {
    let d = dim as u64;
    let mut v = vec![0, 1, 2, d / 2, d.saturating_sub(2), d.saturating_sub(1), d, d.saturating_add(1), d.saturating_add(2), u64::MAX, u64::MAX - 1, u64::MAX / 2, u64::MAX / 2 + 1, 1 << 32, 1 << 63];
    for s in [mul.max(1) as u128, mul as u128 + 1, (mul as u128).saturating_sub(1).max(1)] {
        let q = ((1u128 << 64) + s - 1) / s;
        for dd in 0..=1u128 {
            v.push(((q + dd) & u64::MAX as u128) as u64);
        }
    }
    v.sort();
    v.dedup();
    v
}

/// pick the `i`-th of `coords` (monotone in `i`, so shrinking moves to small coordinates)
pub fn coord(dim: usize, mul: usize, i: u8) -> u64 {
    let v = coords(dim, mul);
    v[(i as usize * v.len()) >> 8]
}

/// Symbolic window bound along a dimension of length `dim`.
pub fn bound(dim: usize, i: u8) -> usize {
    let d = dim;
    let v = [0, 1, 2, d / 3, d / 2, d.saturating_sub(2), d.saturating_sub(1), d, d.saturating_add(1), M, M / 2 + 1];
    v[i as usize % v.len()]
}
pub const BOUNDS: u8 = 11;
