#!/bin/sh
# Offline build of the verification harness (debug + release worker binaries).
set -e
cd "$(dirname "$0")"
export CARGO_NET_OFFLINE=true
[ -f harness/Cargo.lock ] || cp /repo/Cargo.lock harness/Cargo.lock
exec ./check --build
